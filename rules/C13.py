"""C13 — strict recovery never silently returns damaged state.

Decided statically: every strict branch of recovery ends in refusal; the strict reader and the snapshot loader return
Ok only past their integrity guards; every corruption exit of the frame reader is counted; every end-of-file exit of
the frame reader must be surfaced to the strict decision; a fallback snapshot must not be accepted silently under
strict mode; a listed segment that cannot be opened, a recorded snapshot and the MANIFEST itself cannot be skipped / re-created
(C13.R1 open failure, R7, R8).  Necessary conditions; which damaged files are actually detected (checksum strength) is not decided.
"""
import re

from kvstatic import flow, rt, util

MANIFEST = {
    'text': 'Decides the refusal structure of strict recovery on every CFG path: each switch on recovery_mode refuses on '
            'its Strict edge (or uses the strict reader), tolerant calls appear only on BestEffort edges, the strict reader '
            'and Snapshot::load return Ok only past their integrity guards, all corruption exits of the frame reader are '
            'counted, end-of-file exits and fallback snapshots must be surfaced to the strict decision; the failure edge of opening a listed '
            'segment is propagated or decided by recovery_mode, a snapshot the MANIFEST names is loaded on every Strict path before the replay, '
            'and the MANIFEST recovery decides on is the Ok value of Manifest::load (never created). Two of these clauses '
            'are violated on the pinned tree (known findings F7, F8).',
    'design_ref': 'DESIGN.md §4.13, §5 F7/F8',
    'note': 'Trusted base: rustc MIR, guard normal forms, Err-exit recognition. Detection power of CRC32 and bincode '
            'is not decided.',
    'technique': 'CFG refusal-reachability per mode edge, guard→Ok dominance, exit inventory on MIR',
}

EXPLANATION = (
    'DOM/GUARD/FLOW rules of DESIGN §4.13. "Refuses" = from the edge no normal return is reachable except through an '
    'Err-producing block. Exits of WalReader::read_all are enumerated from its CFG (breaks/continues of the frame loop) '
    'and classified by their controlling guard.')


def sw_edges(body, origin, rx):
    r = re.compile(rx)
    out = []
    for i, blk in enumerate(body.blocks):
        if blk['t']['k'] == 'switch' and i in body.live_blocks():
            for tg, p in flow.switch_edge_predicates(body, i, origin):
                if r.search(p):
                    out.append((i, tg, p))
    return out


_DERIVED_DISCR_EQ = '(intrinsics::discriminant_value(arg:self) Eq intrinsics::discriminant_value(arg:other))'


def _derived_enum_eq(prog, call):
    """For a call of `==` / `!=` (PartialEq::eq / ne) between two values of one local field-less enum whose `eq` is the DERIVED one — its whole body is
    `discriminant_value(self) == discriminant_value(other)` — the list of the enum's variant names; None otherwise (a hand-written eq / ne may answer anything, an enum
    with fields is not decided by its discriminant)."""
    if call is None or call.orig not in ('core::cmp::PartialEq::eq', 'core::cmp::PartialEq::ne') or len(call.ga) < 2 or call.ga[0] != call.ga[1]:
        return None
    adt = prog.adts.get(call.ga[0])
    if not adt or adt.get('kind') != 'enum' or any(v.get('fields') for v in adt['variants']):
        return None
    eq_id = '<%s as core::cmp::PartialEq>::eq' % call.ga[0]
    if call.orig.endswith('::ne'):
        # `!=` is the provided method `!self.eq(other)` unless the impl overrides it: an `ne` with a body of its own in the analysed crates is not accepted
        if call.callee != 'core::cmp::PartialEq::ne' and prog.resolve_local(call.callee) is not None:
            return None
        if any(b.id.startswith('<%s as core::cmp::PartialEq' % call.ga[0]) and b.id.endswith('>::ne') for b in prog.bodies.values()):
            return None
    elif call.callee != eq_id:
        return None
    eqb = prog.resolve_local(eq_id)
    if eqb is None or eqb.argc != 2 or flow.render(flow.Origin(eqb).of_local(0)) != _DERIVED_DISCR_EQ:
        return None
    return [v['name'] for v in adt['variants']]


def mode_edges(prog, body, origin):
    """(strict, best): the switch edges (switch block, target, predicate) on which recovery_mode is known to be Strict / BestEffort.  The mode is asked either by a
    switch on its discriminant (`match` / `if let`) or through the derived `==` / `!=` against a constant variant (`if recovery_mode == RecoveryMode::Strict`): the bool
    of `<RecoveryMode as PartialEq>::eq` — checked to be the derived discriminant comparison — is true exactly on that variant, and false on THE other one when the
    enum has exactly two variants (with a third variant the false edge names no mode and nothing is concluded from it)."""
    found = {'Strict': sw_edges(body, origin, r'^variant\(arg:recovery_mode\) = Strict$'),
             'BestEffort': sw_edges(body, origin, r'^variant\(arg:recovery_mode\) = BestEffort$')}
    for i, blk in enumerate(body.blocks):
        t = blk['t']
        if t['k'] != 'switch' or t.get('onty') != 'bool' or i not in body.live_blocks():
            continue
        e = origin.of_operand(t['on'])
        while (e[0] == 'un' and e[1] == 'Not') or (e[0] == 'call' and e[1].endswith('anyhow::__private::not') and e[2]):
            e = e[2] if e[0] == 'un' else e[2][0]
        if e[0] != 'call' or len(e) < 4 or len(e[2]) != 2:
            continue
        names = _derived_enum_eq(prog, e[3])
        if not names:
            continue
        for tg, p in flow.switch_edge_predicates(body, i, origin):
            m = re.match(r'^(!?)eq\[arg:recovery_mode, config::RecoveryMode::(\w+)\{\}\]$', p)
            if not m or m.group(2) not in names:
                continue
            rest = [n for n in names if n != m.group(2)]
            known = m.group(2) if not m.group(1) else (rest[0] if len(rest) == 1 else None)
            if known in found:
                found[known].append((i, tg, 'variant(arg:recovery_mode) = %s' % known))
    return sorted(found['Strict']), sorted(found['BestEffort'])


def field_read_blocks(body, field_rx):
    """Blocks in which a place with a field matching field_rx is read (rvalue of a statement or operand of the terminator)."""
    rx = re.compile(field_rx)

    def has(o):
        if isinstance(o, dict):
            if 'l' in o and any(isinstance(x, str) and rx.search(x) for x in (o.get('p') or [])):
                return True
            return any(has(v) for v in o.values())
        if isinstance(o, list):
            return any(has(v) for v in o)
        return False
    out = []
    for i, blk in enumerate(body.blocks):
        if i in body.live_blocks() and (any(has(s_.get('rv')) for s_ in blk['s']) or has({k: v for k, v in blk['t'].items() if k != 'dest'})):
            out.append(i)
    return out


def refuses(body, starts):
    """No Ok return reachable from starts (Err-producing blocks cut the path)."""
    errs = flow.err_blocks(body)
    st = [s for s in starts if s not in errs]
    r = body.reach(st, avoid_blocks=errs) | set(st)
    return not any(x in r for x in body.return_blocks())


def run(ctx, prog):
    ctx.not_decided = ['which byte-level damage the CRC32 / bincode layers detect',
                       'damage to files the MANIFEST does not name']
    rec = ctx.body('C13.R1', 'HnswBackend::recover_with_hnsw_params_and_mode')
    # the locals the rules talk about are found by what they ARE, not by what they are called (a pure rename in /repo must not matter):
    #   the replay skip boundary = the u64 that is 0 or the loaded snapshot's last_wal_seq; the fallback flag = second component of load_with_validation's Ok value;
    #   the segment path = the PathBuf joined from an element of manifest.wal_segments (recovery has a second `wal_path`, for the fresh segment, hence a role name of its own)
    util.bind_role(rec, 'snapshot_last_wal_seq', type_rx=r'^u64$', origin_rx=r'^phi\(0 \| Snapshot::load_with_validation\(.*→Snapshot\.last_wal_seq\)$', full=True)
    util.bind_role(rec, 'recovered_from_fallback', type_rx=r'^bool$', origin_rx=r'^Snapshot::load_with_validation\(.*\)@Ok→Ok\.0\.1$')
    util.bind_role(rec, 'replayed_segment_path', type_rx=r'path::PathBuf$', origin_rx=r'^Path::join\(.*→Manifest\.wal_segments\)@Some→Some\.0\)$', full=True)
    ov = flow.Origin(rec, stop_at_vars=True)

    # ------------------------------------------------------------------ R1
    ctx.rule('C13.R1', 'every switch on recovery_mode in recovery refuses on its Strict edge (only Err returns reachable) or runs '
                       'the strict reader with its error propagated; tolerant reader calls appear only on BestEffort edges')
    # asked by a switch on the discriminant or through the derived `==` / `!=` (mode_edges)
    strict, best = mode_edges(prog, rec, ov)
    ctx.floor('C13.R1', 'switches on recovery_mode', len(strict), 3, 'snapshot-load failure, missing segment, reader choice')
    best_targets = {}
    for i, tg, p in best:
        best_targets[i] = tg
    n_refuse = 0
    for k, (i, tg, p) in enumerate(strict):
        other = best_targets.get(i)
        # the region of the Strict arm: up to where it joins the BestEffort arm (the switch sits in the segment loop)
        region = rec.reach([tg], avoid_blocks=([other] if other is not None else []) + [i]) | {tg}
        join = (rec.reach([other], avoid_blocks=[i, tg]) | {other}) if other is not None else set()
        arm = [b for b in region if b not in join]
        calls = [rec.call_at(b) for b in arm if rec.call_at(b) is not None]
        strict_reader = [c for c in calls if c.is_('WalReader::read_all_strict')]
        tolerant = [c for c in calls if c.is_('WalReader::read_all')]
        if strict_reader:
            use = util.result_use(rec, strict_reader[0])
            ctx.inst('C13.R1', rec.short, 'Strict edge #%d: strict reader, error propagated' % k, use == 'propagated' and not tolerant,
                     'read_all_strict at %s result %s; tolerant reader on the Strict edge: %s' % (strict_reader[0].loc, use, bool(tolerant)))
        else:
            ok = refuses(rec, [tg])
            n_refuse += 1
            ctx.inst('C13.R1', rec.short, 'Strict edge #%d refuses' % k, ok,
                     ('Strict edge at %s reaches only Err returns' % rec.loc_of(i)) if ok else
                     ('under Strict the branch at %s continues start-up' % rec.loc_of(i)))
    ctx.floor('C13.R1', 'refusing Strict edges', n_refuse, 2, 'snapshot-load failure and missing segment')
    # tolerant reader only under BestEffort
    for c in rec.calls_to('WalReader::read_all'):
        be_edges = [(i, tg) for i, tg, p in best]
        r = rec.reach([0], avoid_edges=be_edges)
        ctx.inst('C13.R1', rec.short, 'tolerant read_all only on a BestEffort edge', c.bb not in r,
                 'read_all at %s %s' % (c.loc, 'reachable without a BestEffort edge' if c.bb in r else 'only past a BestEffort edge'))
    # `continue`/skip of a missing segment only under BestEffort
    ex = sw_edges(rec, ov, r'^!bool\[Path::exists\(var:replayed_segment_path\)\]$|^!bool\[Path::exists\(var:wal_path\)\]$|^!bool\[Path::exists\(.*wal_path.*\)\]$')
    if not ex:
        ctx.missing('C13.R1', 'recovery: `!wal_path.exists()` test')
    else:
        i, tg, p = ex[0]
        dom = [s for s in strict if rec.dominates(tg, s[0]) or tg == s[0] or s[0] in (rec.reach([tg]) | {tg})]
        # … on EVERY path: from the missing-segment edge nothing — neither the next segment of the loop nor a return — is reached without
        # crossing a switch on recovery_mode (whose Strict edge refuses, above). A `continue` placed before the switch would skip it.
        sw_blocks = sorted(set(s_[0] for s_ in strict))
        heads = [c for c in rec.calls if c.callee and c.is_('re:Iterator>::next$') and rec.dominates(c.bb, i) and c.bb in rec.reach([i])]
        esc = rec.reach([tg], avoid_blocks=sw_blocks) | ({tg} - set(sw_blocks))
        leaks = [x for x in list(rec.return_blocks()) + [h.bb for h in heads] if x in esc]
        ctx.inst('C13.R1', rec.short, 'missing segment decided by recovery_mode', bool(dom) and bool(heads) and not leaks,
                 'missing-segment edge at %s: %s' % (rec.loc_of(i), ('a path reaches %s without asking recovery_mode: %s' % (
                     'the next segment' if leaks[0] in [h.bb for h in heads] else 'a return', rt.path_witness(rec, rt.find_path(rec, [tg], [leaks[0]], avoid_blocks=sw_blocks)))) if leaks else
                     'every path crosses a recovery_mode switch'))

    # a snapshot that cannot be loaded at all: the failure edge is decided by recovery_mode on every path as well
    for c in rec.calls_to('Snapshot::load_with_validation', 'Snapshot::load'):
        s_e, f_e = flow.outcome_edges(rec, c)
        if not f_e:
            use = util.result_use(rec, c)
            ctx.inst('C13.R1', rec.short, 'snapshot load failure is propagated or decided by recovery_mode', use == 'propagated', 'result of %s at %s is %s' % (flow.short(c.callee), c.loc, use))
            continue
        sw_blocks = sorted(set(s_[0] for s_ in strict))
        starts = [e[1] for e in f_e]
        esc = rec.reach(starts, avoid_blocks=sw_blocks) | (set(starts) - set(sw_blocks))
        errs = flow.err_blocks(rec)
        replay = [x.bb for x in rec.calls_to('WalReader::open')]
        leaks = [x for x in list(rec.return_blocks()) + replay if x in esc]
        # a return reached only through an Err-building block is a propagated refusal
        leaks = [x for x in leaks if x in replay or x in (rec.reach(starts, avoid_blocks=sw_blocks + sorted(errs)) | (set(starts) - set(sw_blocks) - set(errs)))]
        ctx.inst('C13.R1', rec.short, 'snapshot load failure is propagated or decided by recovery_mode', not leaks,
                 'failure edge of %s at %s: %s' % (flow.short(c.callee), c.loc, 'reaches %s without asking recovery_mode' % ('the log replay' if leaks and leaks[0] in replay else 'a successful return') if leaks else 'every continuing path crosses a recovery_mode switch'))

    # a listed segment that cannot be OPENED (damaged magic, truncated below the header, unreadable) is damage like a missing one: the failure edge of the open is
    # propagated, or decided by recovery_mode on every path — it reaches neither the next segment of the loop nor a successful return without crossing a switch on
    # recovery_mode (whose Strict edge refuses, above).  A `continue` on that edge drops every entry of the segment under Strict as well.
    opens = [c for c in rec.calls_to('WalReader::open') if 'Manifest.wal_segments' in flow.render(flow.Origin(rec).of_operand(c.args[0]))] if rec.calls_to('WalReader::open') else []
    ctx.floor('C13.R1', 'WalReader::open calls on a listed segment in recovery', len(opens), 1, 'the open at the head of the replay of each segment')
    for c in opens:
        s_e, f_e = flow.outcome_edges(rec, c)
        if not f_e:
            ctx.inst('C13.R1', rec.short, 'segment open failure is propagated or decided by recovery_mode', False,
                     'the result of WalReader::open at %s is never tested: no failure edge to decide on' % c.loc)
            continue
        sw_blocks = sorted(set(s_[0] for s_ in strict))
        errs = flow.err_blocks(rec)
        starts = [e[1] for e in f_e]
        heads = [h.bb for h in rec.calls if h.callee and h.is_('re:Iterator>::next$') and rec.dominates(h.bb, c.bb) and h.bb in rec.reach([c.bb])]
        cut = sw_blocks + sorted(errs)
        esc = rec.reach(starts, avoid_blocks=cut) | (set(starts) - set(cut))
        leaks = [x for x in heads + list(rec.return_blocks()) if x in esc]
        ctx.inst('C13.R1', rec.short, 'segment open failure is propagated or decided by recovery_mode', bool(heads) and not leaks,
                 'failure edge of WalReader::open at %s: %s' % (c.loc, ('reaches %s without asking recovery_mode: %s' % (
                     'the next segment' if leaks[0] in heads else 'a successful return', rt.path_witness(rec, rt.find_path(rec, starts, [leaks[0]], avoid_blocks=cut) or [])[-6:])) if leaks else
                     'every continuing path crosses a recovery_mode switch or returns the error'))

    # what the replay may skip is decided by the snapshot that was actually loaded — a fallback snapshot with the MANIFEST's (newer) boundary would skip
    # the entries between the two snapshots and start with them missing
    of13 = flow.Origin(rec)
    sl13 = rec.var_local('snapshot_last_wal_seq')
    slo13 = flow.render(of13.of_local(sl13[0])) if len(sl13) == 1 else '?'
    ctx.inst('C13.R1', rec.short, 'the replay skip boundary comes from the loaded snapshot, not from the MANIFEST',
             bool(re.match(r'^phi\(0 \| Snapshot::load_with_validation\(.*\)@Ok→Ok\.0\.0→Snapshot\.last_wal_seq\)$', slo13)) and 'latest_snapshot_wal_seq' not in slo13,
             'snapshot_last_wal_seq = %s' % (slo13[:60] + ' … ' + slo13[-60:]))

    # ------------------------------------------------------------------ R2
    ctx.rule('C13.R2', 'read_all_strict returns Ok only past corrupted_entries == 0; Snapshot::load returns Ok only past the magic, '
                       'checksum-equal and version-equal edges, and both return the validated data')
    ras = ctx.body('C13.R2', 'WalReader::read_all_strict')
    oras = flow.Origin(ras, stop_at_vars=True)
    # the guard in either polarity: `n > 0` / `n >= 1` / `n != 0` refusing, or the inverted early return `if n == 0 { return Ok(..) }` (for the unsigned counter
    # `!(n >= 1)`, `n == 0` and `n <= 0` are the same set); a threshold other than zero matches neither list
    CE13 = r'arg:self→WalReader\.corrupted_entries'
    G_FAIL = r'^(?:cmp\[\+ %s >= 1\]|!cmp\[\+ %s == 0\]|!cmp\[\+ %s <= 0\])$' % (CE13, CE13, CE13)
    G_PASS = r'^(?:!cmp\[\+ %s >= 1\]|cmp\[\+ %s == 0\]|cmp\[\+ %s <= 0\])$' % (CE13, CE13, CE13)
    g = sw_edges(ras, oras, G_FAIL)
    gpass = sw_edges(ras, oras, G_PASS)
    fresh = True
    if not g or not gpass:
        # the counter copied into a named local before it is tested: the same guard on the fully expanded origin — provided the copy is taken AFTER the frames were
        # read (every read of the counter lies strictly behind the read_all call); a copy taken before the call would be the stale count
        oras_full = flow.Origin(ras)
        g = sw_edges(ras, oras_full, G_FAIL)
        gpass = sw_edges(ras, oras_full, G_PASS)
        ra_ = ras.calls_to('WalReader::read_all')
        fresh = len(ra_) == 1 and all(rb != ra_[0].bb and ras.dominates(ra_[0].bb, rb) for rb in field_read_blocks(ras, r'WalReader\.corrupted_entries$'))
    if not g or not gpass:
        ctx.inst('C13.R2', ras.short, 'Ok only when corrupted_entries == 0', False, 'anchor missing: no `corrupted_entries > 0` guard in a recognised form')
    else:
        fails_refuse = refuses(ras, [e[1] for e in g])
        r = ras.reach([0], avoid_blocks=flow.err_blocks(ras), avoid_edges=[(i, tg) for i, tg, p in gpass])
        dom = not any(x in r for x in ras.return_blocks())
        ra = ras.calls_to('WalReader::read_all')
        use = util.result_use(ras, ra[0]) if ra else 'missing'
        ctx.inst('C13.R2', ras.short, 'Ok only when corrupted_entries == 0', fails_refuse and dom and use == 'propagated' and fresh,
                 'corrupted>0 edge refuses: %s; every Ok return passes the ==0 edge: %s; read_all result: %s' % (fails_refuse, dom, use) +
                 ('' if fresh else '; the tested count is read before read_all has run (stale)'))
    sl = ctx.body('C13.R2', 'Snapshot::load')
    # roles, not names: the computed checksum is the u32 returned by crc32fast::hash, the version header the u32 decoded by bincode::deserialize_from.  The magic word
    # and the stored checksum are both `u32::from_le_bytes(<4 bytes read>)` — what tells them apart is what they are compared WITH, so the three guards are recognised
    # on the fully expanded comparison as well (below), which names no local at all
    util.bind_role(sl, 'computed_checksum', type_rx=r'^u32$', assigned_from=r'crc32fast::hash$')
    util.bind_role(sl, 'snapshot_version', type_rx=r'^u32$', origin_rx=r'^bincode::deserialize_from\(', full=True)
    osl = flow.Origin(sl, stop_at_vars=True)
    osl_full = flow.Origin(sl)
    # writer side constants (the reader must compare with what the writer writes)
    sv = ctx.body('C13.R2', 'Snapshot::save')
    wmagic = None
    for c in sv.calls:
        if c.callee and c.callee.endswith('::to_le_bytes') and c.args and c.args[0].get('k') == 'c' and 'SNAPSHOT_MAGIC' in (c.args[0].get('cdef') or c.args[0].get('v', '')):
            wmagic = c.args[0].get('int')
    sn = ctx.body('C13.R2', 'Snapshot::new')
    wver = None
    for i_, blk_ in enumerate(sn.blocks):
        for s_ in blk_['s']:
            rv_ = s_.get('rv')
            if rv_ and rv_['k'] == 'agg' and rv_.get('adt', '').endswith('persistence::Snapshot') and 'version' in (rv_.get('fields') or []):
                wver = rv_['ops'][rv_['fields'].index('version')].get('int')
    ctx.inst('C13.R2', 'Snapshot', 'writer constants found', wmagic is not None and wver is not None,
             'magic written by save: %s; version written by new: %s' % (wmagic, wver), nontrivial=False)
    # each guard in two renderings of the same switch: variable level (by name / role) and fully expanded (what is compared: the decoded word with the writer's magic,
    # the CRC of the payload with the decoded word, the decoded version header with the writer's version)
    CRC_EQ_FULL = r'cmp\[\+ (crc32fast::hash\(.*\) - num::from_le_bytes\(.*\)|num::from_le_bytes\(.*\) - crc32fast::hash\(.*\)) == 0\]$'
    GUARDS = [('magic', r'cmp\[\+ var:magic_val == %s\]$' % wmagic, r'cmp\[\+ num::from_le_bytes\([^()]*\) == %s\]$' % wmagic),
              ('checksum', r'cmp\[\+ (var:computed_checksum - var:stored_checksum|var:stored_checksum - var:computed_checksum) == 0\]$', CRC_EQ_FULL),
              ('version', r'cmp\[\+ var:snapshot_version == %s\]$' % wver, r'cmp\[\+ bincode::deserialize_from\(.*\)@Continue→Continue\.0 == %s\]$' % wver)]
    # a comparison with a constant may also be written as a `match` on the constant pattern (`match snapshot_version { SNAPSHOT_VERSION => {} other => bail!(..) }`):
    # a switch on the decoded word itself whose ONLY listed value is the writer's constant — that edge is the equal edge, `otherwise` the mismatch edge (a second
    # accepted value would make the otherwise edge `∉ {c,d}`: not recognised, anchor missing)
    INT_SW = {'magic': (r'num::from_le_bytes\([^()]*\)', wmagic), 'version': (r'bincode::deserialize_from\(.*\)@Continue→Continue\.0', wver)}
    for nm, rx, rx_full in GUARDS:
        fail = sw_edges(sl, osl, '^!' + rx) or sw_edges(sl, osl_full, '^!' + rx_full)
        pas = sw_edges(sl, osl, '^' + rx) or sw_edges(sl, osl_full, '^' + rx_full)
        if (not fail or not pas) and nm in INT_SW and INT_SW[nm][1] is not None:
            fail = sw_edges(sl, osl_full, r'^%s ∉ \{%d\}$' % INT_SW[nm])
            pas = sw_edges(sl, osl_full, r'^%s = %d$' % INT_SW[nm])
        if not fail or not pas:
            ctx.inst('C13.R2', sl.short, 'Ok only past the %s guard' % nm, False, 'anchor missing: %s comparison not found in a recognised form' % nm)
            continue
        fr = refuses(sl, [e[1] for e in fail])
        r = sl.reach([0], avoid_blocks=flow.err_blocks(sl), avoid_edges=[(i, tg) for i, tg, p in pas])
        dom = not any(x in r for x in sl.return_blocks())
        ctx.inst('C13.R2', sl.short, 'Ok only past the %s guard' % nm, fr and dom, 'mismatch edge refuses: %s; every Ok return passes the equal edge: %s' % (fr, dom))
    # computed checksum is over the bytes that are deserialised
    fo = flow.Origin(sl)
    cc = sl.var_local('computed_checksum')
    if cc:
        r = flow.render(fo.of_local(cc[0]))
        ctx.inst('C13.R2', sl.short, 'checksum computed over the payload bytes', 'crc32fast::hash' in r, 'computed_checksum = %s' % r[:120])
    else:
        # no local in that role (inlined into the comparison, or neither role nor name found): decide on the compared value itself
        cmps = [p for _, _, p in sw_edges(sl, osl_full, '^' + CRC_EQ_FULL)]
        ctx.inst('C13.R2', sl.short, 'checksum computed over the payload bytes', bool(cmps), 'checksum comparison: %s' % (cmps[0][:120] if cmps else 'not found'))
    vn = sl.calls_to('Snapshot::validate_and_normalize')
    ctx.inst('C13.R2', sl.short, 'validate_and_normalize propagated', bool(vn) and util.result_use(sl, vn[0]) == 'propagated',
             'validate_and_normalize result: %s' % (util.result_use(sl, vn[0]) if vn else 'missing'))

    # ------------------------------------------------------------------ R3 / R4: exits of the frame reader
    ctx.rule('C13.R3', 'each corruption exit of WalReader::read_all (invalid size, CRC mismatch, deserialize error) increments '
                       'corrupted_entries before leaving the frame')
    ctx.rule('C13.R4', 'each UnexpectedEof exit of WalReader::read_all writes state the strict decision can see, so that a '
                       'mid-frame end of a non-newest segment can be refused')
    ra = ctx.body('C13.R3', 'WalReader::read_all')
    # roles in the frame reader: the frame length = the usize decoded from the size header that sizes the payload buffer; the computed checksum = result of
    # crc32fast::hash; the stored checksum = the (only) u32 decoded from bytes of the file
    util.bind_role(ra, 'entry_size', type_rx=r'^usize$', origin_rx=r'^num::from_le_bytes\(', used_as=(r'vec::from_elem$', 1))
    util.bind_role(ra, 'computed_checksum', type_rx=r'^u32$', assigned_from=r'crc32fast::hash$')
    util.bind_role(ra, 'stored_checksum', type_rx=r'^u32$', origin_rx=r'^num::from_le_bytes\(')
    ora = flow.Origin(ra, stop_at_vars=True)
    counts = util.assign_blocks(ra, r'WalReader\.corrupted_entries$')
    state_w = set(counts) | set(util.assign_blocks(ra, r'WalReader\.\w+$'))
    reads = [c for c in ra.calls if c.is_('re:Read>::read_exact$', 'std::io::Read::read_exact')]
    if len(reads) < 3:
        ctx.missing('C13.R3', 'read_all: three read_exact calls (found %d)' % len(reads))
        return
    head = min(c.bb for c in reads)
    rets = ra.return_blocks()
    CORR = [('invalid size', r'^cmp\[\+ var:entry_size == 0\]$|^cmp\[\+ var:entry_size - .*MAX_WAL_ENTRY_BYTES >= 1\]$'),
            ('CRC mismatch', r'^!cmp\[\+ (var:computed_checksum - var:stored_checksum|var:stored_checksum - var:computed_checksum) == 0\]$'),
            ('deserialize error', r'^variant\(bincode::deserialize.*\) = Err$|^variant\(.*deserialize.*\) = Err$')]
    for nm, rx in CORR:
        es = sw_edges(ra, ora, rx)
        if not es:
            ctx.inst('C13.R3', ra.short, 'corruption exit: ' + nm, False, 'anchor missing: the %s test is not in a recognised form' % nm)
            continue
        starts = [e[1] for e in es]
        r = ra.reach(starts, avoid_blocks=counts) | set(s for s in starts if s not in counts)
        bad = head in r or any(x in r for x in rets)
        ctx.inst('C13.R3', ra.short, 'corruption exit: ' + nm, not bad,
                 'the %s exit leaves the frame without counting it' % nm if bad else '%s ⇒ corrupted_entries += 1 before break/continue' % nm)
    eof = sw_edges(ra, ora, r'^eq\[.*ErrorKind::UnexpectedEof.*\]$')
    eof = [e for e in eof if not e[2].startswith('!')]
    ctx.floor('C13.R4', 'UnexpectedEof exits of read_all', len(eof), 3, 'size header, payload, checksum')
    names = ['frame size header', 'frame payload', 'frame checksum']
    eof.sort(key=lambda e: e[0])
    for k, (i, tg, p) in enumerate(eof):
        r = ra.reach([tg], avoid_blocks=state_w) | ({tg} - state_w)
        silent = any(x in r for x in rets)
        nm = names[k] if k < len(names) else '#%d' % k
        ctx.inst('C13.R4', ra.short, 'EOF exit while reading the %s' % nm, not silent,
                 ('read_exact(%s) → UnexpectedEof at %s breaks out of the frame loop and returns Ok(entries) without recording anything: '
                  'a truncated or bit-flipped (length field) non-newest segment is indistinguishable from a clean end of log, so strict '
                  'recovery cannot refuse it' % (nm, ra.loc_of(i))) if silent else 'EOF in the %s is recorded' % nm)

    # ------------------------------------------------------------------ R5
    ctx.rule('C13.R5', 'under Strict a snapshot loaded from a fallback (primary corrupted) is refused or checked against the log '
                       'coverage recorded in the MANIFEST; it is not accepted by logging only')
    fb = sw_edges(rec, ov, r'^bool\[var:recovered_from_fallback\]$')
    if not fb:
        ctx.missing('C13.R5', 'recovery: test of recovered_from_fallback')
    else:
        i, tg, p = fb[0]
        other = [t for t, q in flow.switch_edge_predicates(rec, i, ov) if t != tg]
        join = rec.reach(other) | set(other)
        arm = [b for b in (rec.reach([tg]) | {tg}) if b not in join]
        errs = flow.err_blocks(rec)
        has_err = any(b in errs for b in arm)
        has_mode = any(rec.blocks[b]['t']['k'] == 'switch' and any('recovery_mode' in q for _, q in flow.switch_edge_predicates(rec, b, ov)) for b in arm)
        has_cov = any(rec.blocks[b]['t']['k'] == 'switch' and any('latest_snapshot_wal_seq' in q for _, q in flow.switch_edge_predicates(rec, b, flow.Origin(rec))) for b in arm)
        ok = has_err or has_mode or has_cov
        ctx.inst('C13.R5', rec.short, 'fallback snapshot not accepted silently under Strict', ok,
                 'the recovered_from_fallback edge at %s only logs (no Err exit, no recovery_mode test, no comparison with '
                 'manifest.latest_snapshot_wal_seq): strict start-up continues from an older snapshot even when the log between it and the '
                 'newest snapshot was compacted away' % rec.loc_of(i) if not ok else 'fallback is refused / checked')
    # ------------------------------------------------------------------ R6 the MANIFEST decoder refuses a damaged key
    ctx.rule('C13.R6', 'MANIFEST is JSON without a checksum: the only thing that refuses a damaged field NAME (one flipped bit turns "wal_segments" into an unknown key, '
                       'which serde skips) is the derived decoder\'s missing-field error. The generated visit_map of Manifest must raise missing_field for every field '
                       'recovery decides on — version, wal_segments, last_updated (non-optional) — so a defaulted field (container- or field-level #[serde(default)]) '
                       'fails: an empty segment list replays nothing and reports success')
    vm = [b for b in prog.bodies.values() if 'persistence::Manifest>::deserialize::__Visitor' in b.id and b.id.endswith('::visit_map')]
    if not vm:
        ctx.missing('C13.R6', 'derived Deserialize visitor (visit_map) of persistence::Manifest')
    for b in vm:
        of6 = flow.Origin(b)
        req = {}
        for c in b.calls:
            if c.callee and c.callee.endswith('de::missing_field') and c.args and c.dest is not None:
                nm = flow.render(of6.of_operand(c.args[0])).strip('"')
                req[nm] = b.locals[c.dest['l']]
        for fld in ('version', 'wal_segments', 'last_updated'):
            ok6 = fld in req and not req[fld].startswith('core::result::Result<core::option::Option<')
            ctx.inst('C13.R6', 'persistence::Manifest', 'field %s is required by the decoder' % fld, ok6,
                     ('missing_field("%s") raised when the key is absent' % fld) if ok6 else
                     'the derived decoder does not raise missing_field("%s"): an absent or damaged key is replaced by a default (fields with an error exit: %s)' % (fld, sorted(req)))
    # the optional fields (latest_snapshot, latest_snapshot_wal_seq) read as None when their key is absent, so a damaged key NAME must not be skipped: the field-name
    # visitor of the derived decoder raises unknown_field (#[serde(deny_unknown_fields)]) for a key that is none of the five
    fv = [b for b in prog.bodies.values() if 'persistence::Manifest>::deserialize::__FieldVisitor' in b.id and re.search(r'::visit_(str|bytes)$', b.id)]
    if not fv:
        ctx.missing('C13.R6', 'derived field-name visitor (visit_str / visit_bytes) of persistence::Manifest')
    for b in sorted(fv, key=lambda x: x.id):
        uk = [c for c in b.calls if c.callee and c.callee.endswith('Error::unknown_field')]
        ctx.inst('C13.R6', 'persistence::Manifest', 'an unknown key is a decode error (%s)' % b.id.rsplit('::', 1)[-1], bool(uk),
                 'unknown_field raised: %d call(s)' % len(uk) if uk else 'the decoder skips unknown keys: a flipped bit in "latest_snapshot" makes the field read as None and strict recovery starts '
                 'without the snapshot, reporting success')
    mf = [b for b in prog.bodies.values() if b.short.endswith('persistence::Manifest::load')]
    for b in mf:
        de = [c for c in b.calls if c.callee and re.search(r'serde_json::(de::)?from_(slice|str|reader)$', c.callee)]
        errs6 = flow.err_blocks(b)
        okd = bool(de) and all((flow.failure_edges(b, c) or []) and not flow.ok_return_reachable(b, [e[1] for e in flow.failure_edges(b, c)]) for c in de)
        ctx.inst('C13.R6', b.short, 'a decode error of MANIFEST is returned as an error', okd, 'decode calls: %d' % len(de))
    # ------------------------------------------------------------------ R7 a snapshot the MANIFEST names is consulted
    ctx.rule('C13.R7', 'the log in front of the snapshot recorded in the MANIFEST may have been compacted away, so that snapshot is the only copy of the documents it covers: '
                       'in recovery every path from entry to the log replay or to a successful return passes the snapshot loader (Snapshot::load_with_validation / '
                       'Snapshot::load), except across the None edge of a test of the MANIFEST field latest_snapshot ITSELF (no snapshot was ever recorded) or a BestEffort '
                       'edge. Skipping the load on any other condition (file not on disk, size, age — a filtered or re-derived Option) starts up with the snapshot\'s '
                       'documents missing and reports success; what happens when the load FAILS is C13.R1')
    of7 = flow.Origin(rec)
    loads7 = rec.calls_to('Snapshot::load_with_validation', 'Snapshot::load')
    # "a test of the field itself": the switched-on Option is manifest.latest_snapshot, seen through what preserves Some-ness (as_ref / clone / as_deref are transparent in
    # origins; Option::map is looked through here) — not Option::filter / and_then / a zip with a file-system probe, whose None says something else
    def _is_field7(e):
        while e[0] == 'cast' or (e[0] == 'call' and flow.short(e[1]) == 'Option::map' and e[2]):
            e = e[1] if e[0] == 'cast' else e[2][0]
        return e[0] == 'field' and e[2].endswith('Manifest.latest_snapshot')
    none7 = []
    for i, blk in enumerate(rec.blocks):
        if blk['t']['k'] == 'switch' and i in rec.live_blocks():
            e = of7.of_operand(blk['t']['on'])
            while e[0] == 'un' and e[1] == 'Not':
                e = e[2]
            if e[0] == 'discr' and _is_field7(e[1]):
                none7 += [(i, tg) for tg, p in flow.switch_edge_predicates(rec, i, of7) if re.search(r'\) (?:= None|∉ \{Some\})$', p)]
            elif e[0] == 'call' and flow.short(e[1]) in ('Option::is_some', 'Option::is_none') and e[2] and _is_field7(e[2][0]):
                none7 += [(i, tg) for tg, p in flow.switch_edge_predicates(rec, i, of7) if p.startswith('!bool[Option::is_some(') or p.startswith('bool[Option::is_none(')]
    if not loads7 or not none7:
        ctx.missing('C13.R7', 'recovery: snapshot loader call (%d) / test of manifest.latest_snapshot (%d None edges)' % (len(loads7), len(none7)))
    else:
        errs7 = flow.err_blocks(rec)
        be7 = [(i, tg) for i, tg, p in best]
        replay7 = [x.bb for x in rec.calls_to('WalReader::open', 'WalReader::read_all_strict', 'WalReader::read_all')]
        cut7 = set(x.bb for x in loads7) | set(errs7)
        r7 = rec.reach([0], avoid_blocks=cut7, avoid_edges=none7 + be7)
        leaks7 = [x for x in replay7 + list(rec.return_blocks()) if x in r7]
        det7 = 'every path to the replay / a successful return loads the recorded snapshot, or found manifest.latest_snapshot = None, or is BestEffort'
        if leaks7:
            path7 = rt.find_path(rec, [0], [leaks7[0]], avoid_blocks=cut7, avoid_edges=none7 + be7) or []
            crossed = []
            for a_, b_ in zip(path7, path7[1:]):
                if rec.blocks[a_]['t']['k'] == 'switch':
                    for tg, p in flow.switch_edge_predicates(rec, a_, of7):
                        if tg == b_ and ('latest_snapshot' in p or 'Snapshot' in p):
                            crossed.append('%s at %s' % (re.sub(r'Manifest::load\(.*?\)@Continue→Continue\.0', 'manifest', p)[:160], rec.loc_of(a_)))
            det7 = '%s is reached without loading the snapshot the MANIFEST names; the path decides on: %s' % (
                'the log replay at %s' % rec.loc_of(leaks7[0]) if leaks7[0] in replay7 else 'a successful return', crossed[-3:] or rt.path_witness(rec, path7)[-4:])
        ctx.inst('C13.R7', rec.short, 'a snapshot named by the MANIFEST is loaded before the replay on every Strict path', bool(replay7) and not leaks7, det7)

    # ------------------------------------------------------------------ R8 the MANIFEST recovery decides on is the one on disk
    ctx.rule('C13.R8', 'a removed MANIFEST refuses start-up: the Manifest whose wal_segments recovery replays and whose latest_snapshot it loads is the Ok value of '
                       'Manifest::load — read from the file and decoded, both failures returned (Manifest::load: no Ok return from the failure edge of the file read; '
                       'decoder: C13.R6) — on every path, never a freshly constructed one (Manifest::new / load_or_create): with a created MANIFEST recovery replays '
                       'nothing, reports success with an empty collection and then overwrites the record of the old segments')
    bases8 = {}

    def _walk8(o):
        if isinstance(o, dict):
            if 'l' in o and any(isinstance(x, str) and re.search(r'Manifest\.(wal_segments|latest_snapshot)$', x) for x in (o.get('p') or [])):
                pr = o['p']
                k_ = next(n for n, x in enumerate(pr) if isinstance(x, str) and re.search(r'Manifest\.(wal_segments|latest_snapshot)$', x))
                base = of7.of_place({'l': o['l'], 'p': pr[:k_]})
                for a in flow.top_alternatives(base):
                    if a[0] == 'set':
                        continue
                    bases8.setdefault(flow.render(a), pr[k_].rsplit('.', 1)[-1])
                return
            for v in o.values():
                _walk8(v)
        elif isinstance(o, list):
            for v in o:
                _walk8(v)
    for i, blk in enumerate(rec.blocks):
        if i in rec.live_blocks():
            _walk8([s_.get('rv') for s_ in blk['s']])
            _walk8({k: v for k, v in blk['t'].items() if k != 'dest'})
    if not bases8:
        ctx.missing('C13.R8', 'recovery: reads of Manifest.wal_segments / Manifest.latest_snapshot')
    else:
        bad8 = sorted(b for b in bases8 if not re.match(r'^Manifest::load\((?:[^()]|\((?:[^()]|\([^()]*\))*\))*\)@(?:Continue→Continue|Ok→Ok)\.0$', b))
        ml8 = rec.calls_to('Manifest::load')
        use8 = util.result_use(rec, ml8[0]) if ml8 else 'missing'
        ctx.inst('C13.R8', rec.short, 'the replayed segment list and the loaded snapshot name come from Manifest::load', not bad8 and use8 == 'propagated',
                 ('manifest.%s is read from %s' % (bases8[bad8[0]], bad8[0][:200])) if bad8 else 'origin of every read: Manifest::load(<data_dir>/MANIFEST), result %s' % use8)
    for b in mf:
        rd = [c for c in b.calls if c.callee and re.search(r'fs::read_to_string$|fs::read$|File::open$|OpenOptions::open$', c.callee)]
        okr = bool(rd) and all(flow.failure_edges(b, c) and not flow.ok_return_reachable(b, [e[1] for e in flow.failure_edges(b, c)]) for c in rd)
        # every value the function returns is an error (residual of `?`, Err aggregate), the decoder's own Result, or Ok(<the decoder's Ok value>)
        DEC8 = r'(?:serde_json::)?(?:de::)?from_(?:slice|str|reader)\('
        alts8 = flow.top_alternatives(flow.Origin(b).of_local(0))
        oks8, other8 = [], []
        for a in alts8:
            r_ = flow.render(a)
            if a[0] == 'call' and (a[1].endswith('::from_residual') or re.match('^' + DEC8, r_)):
                continue
            if a[0] == 'agg' and a[1].endswith('Result::Err'):
                continue
            if a[0] == 'agg' and a[1].endswith('Result::Ok') and len(a[2]) == 1 and re.match('^' + DEC8 + r'.*\)@(?:Continue→Continue|Ok→Ok)\.0$', flow.render(a[2][0])):
                oks8.append(r_)
                continue
            other8.append(r_)
        okv = bool(oks8) and not other8
        ctx.inst('C13.R8', b.short, 'an unreadable or absent MANIFEST file is an error, the Ok value is the decoded file', okr and okv,
                 'file reads: %d, failure returned: %s; %s' % (len(rd), okr, ('returns something that was not decoded from the file: %s' % other8[0][:160]) if other8 else 'Ok value: %s' % (oks8[0][:120] if oks8 else 'none')))
    if not mf:
        ctx.missing('C13.R8', 'function persistence::Manifest::load')
    # ------------------------------------------------------------------ R9 which snapshot the fallback scan starts with
    ctx.rule('C13.R9', 'when the snapshot the MANIFEST names cannot be loaded, Snapshot::load_with_validation scans the directory newest first and skips the candidates up to '
                       'AND INCLUDING the named one — found by equality. A named file that is not in the directory (a flipped digit in MANIFEST.latest_snapshot) skips '
                       'nothing, so the newest intact snapshot is tried first and recovery is exact; an order-based skip ("everything not older than the named number") '
                       'passes over the real latest snapshot and loads an older one whose following log segments were compacted away. (That a fallback is accepted '
                       'under Strict at all is the known finding of R5; this rule pins the one case in which the fallback is harmless)')
    lv = ctx.body('C13.R9', 'Snapshot::load_with_validation')
    if lv is not None:
        util.bind_role(lv, 'skip_count', type_rx=r'^usize$', used_as=(r'Iterator::skip$', 1))
        sk = lv.var_local('skip_count')
        so = flow.render(flow.Origin(lv).of_local(sk[0])) if sk else ''
        pos_cl = None
        m9 = re.search(r'Option::and_then\(.*, closure:([\w:<> ]*\{closure#\d+\})\{', so)
        eq_ok = False
        for b in prog.family(lv):
            if b.kind != 'Closure':
                continue
            r_ = flow.render(flow.Origin(b).of_local(0))
            mp = re.match(r"^<iter::Iter<'a, T> as iterator::Iterator>::position\(slice::iter\(cap:\w+\), closure:([^{]*\{closure#\d+\}(?:::\{closure#\d+\})?)\{arg:\w+\}\)$", r_)
            if mp:
                for b2 in prog.family(lv):
                    if b2.kind == 'Closure' and b2.id.endswith(mp.group(1)):
                        eq_ok = bool(re.match(r'^\(arg:_\d+\.0 Eq cap:\w+\)$|^\(cap:\w+ Eq arg:_\d+\.0\)$', flow.render(flow.Origin(b2).of_local(0))))
        shape = bool(re.match(r'^Option::unwrap_or\(Option::map\(Option::and_then\(.*\), closure:[^)]*\), 0\)$', so))
        ctx.inst('C13.R9', lv.short, 'the scan skips up to the named snapshot found by equality; a missing named file skips nothing', bool(sk) and shape and eq_ok,
                 'skip_count = %s … ; position() predicate is an equality with the named number: %s' % (so[:60], eq_ok))
    # ------------------------------------------------------------------ R10 = C01.R16 a removed MANIFEST is not a fresh directory
    ctx.rule('C13.R10', 'a removed MANIFEST (= C01.R16, shared function): the server\'s start-up scan of a MANIFEST-less data directory recognises both file families the '
                        'engine writes (snapshot_*.snap, wal_*.wal), so the directory is refused instead of being started empty; only a header-only log segment is exempt')
    from rules import C01 as _c01
    _c01.orphan_scan(ctx, prog, 'C13.R10')
    ctx.stat('functions_analysed', len(set(i['key'].split(' | ')[1] for i in ctx.instances)))
