"""C14 — tenant vector quotas are exact.

Decided statically: the lock discipline and the pairing of count updates — every liveness-changing engine call and every
quota-count mutation in an RPC handler happens with the tenant's quota lock held; reservations are released on every
failure path and no path leaves between a successful quota check / reservation and the engine call that consumes it; a bulk
batch reserves for exactly the ids the engine reports absent; decrements use the engine's reported count; the start-up recount
completes before the service is exposed.
The arithmetic over histories is not decided.
"""
import re

from kvstatic import flow, rt, util, server
from kvstatic.locks import LockModel

MANIFEST = {
    'text': 'Decides the structural clauses behind exact quotas: at every call site of a liveness-changing engine operation '
            '(insert, bulk load, delete, batch delete) and of every quota-count mutation in the RPC handlers the per-tenant '
            'quota lock is held (must-hold dataflow), failed writes give their reservation back on every path, no exit lies between a counted '
            'slot and engine.insert / a reservation and its load, the reserved id set of a bulk batch is built on the engine.exists = false edge, deletes '
            'decrement by what the engine reports, and the start-up recount precedes serving. Necessary conditions; the '
            'arithmetic over histories is not decided.',
    'design_ref': 'DESIGN.md §4.14, §5 F9',
    'note': 'Trusted base: rustc MIR, guard-liveness dataflow with Option<Guard> from quota_lock.as_ref().map(|l| l.lock()) '
            '(conditional on the tenant being present, which is also the condition of every count mutation).',
    'technique': 'must-hold lock-state dataflow (HELD) + failure-edge pairing (DOM) on MIR',
}

EXPLANATION = ('HELD/DOM/FLOW rules of DESIGN §4.14 over the real handler bodies (the innermost coroutine behind '
               '#[tonic::async_trait] + #[instrument]).')

QLOCK = 'Mutex<()>@tenant_quota_lock'
LIVENESS = ['TieredEngine::insert', 'TieredEngine::bulk_load_cold_tier', 'TieredEngine::delete', 'TieredEngine::batch_delete',
            'TieredEngine::batch_delete_by_metadata_filter']
COUNTS = ['KyroDBServiceImpl::enforce_vector_quota', 'KyroDBServiceImpl::reserve_tenant_vectors',
          'KyroDBServiceImpl::release_reserved_tenant_vectors', 'KyroDBServiceImpl::decrement_tenant_vectors']
HANDLERS = ['insert', 'bulk_insert', 'bulk_load_hnsw', 'delete', 'batch_delete']


def flag_edges(b, ov, name, what_rx):
    """True edges of the switches on a bool flag.  The flag is recognised by what it IS — its fully expanded origin matches what_rx — whatever the local is called and
    however many named copies (`Ok(x) => x`, the binding of `?`) lie between the call and the test; a local literally called `name` is accepted as before."""
    of = None
    out = []
    for i, blk in enumerate(b.blocks):
        if blk['t']['k'] != 'switch':
            continue
        for tg, p in flow.switch_edge_predicates(b, i, ov):
            if p == 'bool[var:%s]' % name:
                out.append((i, tg))
            elif re.match(r'^bool\[var:\w+\]$', p):
                of = of or flow.Origin(b)
                if any(t == tg and re.match(r'^bool\[(?:%s)\]$' % what_rx, q) for t, q in flow.switch_edge_predicates(b, i, of)):
                    out.append((i, tg))
    return out


def _calls_of(e):
    """callee paths of every call node in an origin tree"""
    out = []
    for n in flow.walk(e):
        if isinstance(n, tuple) and n and n[0] == 'call':
            out.append(n[1] if isinstance(n[1], str) else str(n[1]))
    return out


def run(ctx, prog):
    ctx.not_decided = ['the arithmetic of the counts over whole histories', 'restart recount equality (needs C11)']
    lm = LockModel(prog)
    ctx.rule('C14.R1', 'in every RPC handler each liveness-changing engine call and each quota-count mutation happens with the '
                       'tenant quota lock held')
    total = 0
    for h in HANDLERS:
        b = server.handler(ctx, 'C14.R1', h, 'KyroDBServiceImpl::tenant_context')
        per = {}
        for c in b.calls:
            if c.callee and c.is_(*(LIVENESS + COUNTS)):
                total += 1
                held = lm.held_at(b, c.bb, must=True)
                nm = flow.short(c.callee)
                k = per.get(nm, 0)
                per[nm] = k + 1
                ctx.inst('C14.R1', 'rpc ' + h, '%s #%d under the quota lock' % (nm, k), QLOCK in held,
                         '%s at %s: held = %s' % (nm, c.loc, sorted(held)))
        if not per:
            ctx.missing('C14.R1', 'rpc %s: no liveness/quota call found' % h)
    ctx.floor('C14.R1', 'liveness / quota-count call sites in handlers', total, 17, 'measured on the repaired tree')
    # no other function of the server binary calls the count mutators or the liveness-changing engine calls
    others = set()
    for c in prog.callers_of(*(LIVENESS + COUNTS)):
        if c.body.crate != 'kyrodb_server':
            continue
        root = c.body.root
        if not any(root == server.SERVICE_PREFIX + h for h in HANDLERS):
            others.add(c.body.short.split('::{')[0] + ' → ' + flow.short(c.callee))
    ctx.inst('C14.R1', 'kyrodb_server', 'liveness / quota mutations only from the five write handlers', not others,
             'other callers: %s' % sorted(others))

    ctx.rule('C14.R2', 'pairing: insert / bulk_insert give the reserved slot back on the Err edge of engine.insert when the id was '
                       'new; bulk_load_hnsw releases reserved − inserted on Ok and the whole reservation on Err, at both batch sites; between the successful quota check / '
                       'reservation and the engine call that consumes it no path leaves the handler without handing the slot back (an early refusal there leaks it for '
                       'good); the set a bulk batch reserves for is filled with exactly the ids engine.exists reports absent before the load (what the census release '
                       'gives back is exact only for those)')
    for h in ('insert', 'bulk_insert'):
        b = server.handler(ctx, 'C14.R2', h, 'KyroDBServiceImpl::tenant_context')
        ov = flow.Origin(b, stop_at_vars=True)
        ins = b.calls_to('TieredEngine::insert')
        if not ins:
            ctx.missing('C14.R2', 'rpc %s: engine.insert' % h)
            continue
        s_e, f_e = flow.outcome_edges(b, ins[0])
        dec = [c.bb for c in b.calls_to('KyroDBServiceImpl::decrement_tenant_vectors')]
        if not f_e or not dec:
            ctx.inst('C14.R2', 'rpc ' + h, 'failed insert returns the slot', False, 'no tested failure edge / no decrement call')
            continue
        # on the failure edge: every path passes decrement unless via the `already_exists` edge
        # (the flag = the Ok value of enforce_vector_quota, taken with `?` in insert and with a match in bulk_insert)
        ae = flag_edges(b, ov, 'already_exists', r'KyroDBServiceImpl::enforce_vector_quota\(.*\)@(?:Ok→Ok|Continue→Continue)\.0')
        starts = [e[1] for e in f_e]
        r = b.reach(starts, avoid_blocks=dec, avoid_edges=ae) | set(starts)
        # "leaves the failure handling" = reaches a return or the next stream item
        exits = set(b.return_blocks()) | set(c.bb for c in b.calls if c.is_('re:Streaming::message$', 're:StreamExt.*::next$'))
        bad = [x for x in exits if x in r]
        o = flow.Origin(b)
        args_ok = all(flow.render(o.of_operand(b.call_at(d).args[2])) == '1' for d in dec)
        in_fail = all(d in (b.reach(starts) | set(starts)) for d in dec)
        ctx.inst('C14.R2', 'rpc ' + h, 'failed insert of a new id decrements by 1', not bad and args_ok and in_fail and bool(ae),
                 'uncompensated exit reachable: %s; decrement(1): %s; only on the failure edge: %s' % (bool(bad), args_ok, in_fail))
        # ... and the slot counted by enforce_vector_quota is still owed to somebody between the count and the engine call: from the success edge of the quota check
        # every path to a response / the next stream item passes engine.insert (whose failure edge gives the slot back, above) or the decrement; an early refusal
        # placed in that window (a late validation, a limit on the assembled metadata) keeps the tenant's count one above its live documents for good
        q = b.calls_to('KyroDBServiceImpl::enforce_vector_quota')
        starts_q = [e[1] for c in q for e in flow.success_edges(b, c)]
        cut_q = set(c.bb for c in ins) | set(dec)
        r_q = b.reach(starts_q, avoid_blocks=cut_q, avoid_edges=ae) | (set(starts_q) - cut_q)
        bad_q = [x for x in exits if x in r_q]
        wit_q = rt.path_witness(b, rt.find_path(b, starts_q, [bad_q[0]], avoid_blocks=cut_q, avoid_edges=ae) or []) if bad_q else []
        # the witness is shown from the block that builds the refusal (the first Err-producing block of the path), not from the bookkeeping in front of it
        errs_q = flow.err_blocks(b)
        first_err = next((w for w in wit_q if int(w.split(' ')[0][2:]) in errs_q), None)
        ctx.inst('C14.R2', 'rpc ' + h, 'a counted slot reaches engine.insert or is given back: no exit in between', bool(q) and bool(starts_q) and not bad_q,
                 ('between the successful enforce_vector_quota at %s and engine.insert at %s a path leaves the handler%s without giving the slot back: %s' % (
                     q[0].loc, ins[0].loc, ' (refusal built at %s)' % first_err if first_err else '', wit_q[-5:])) if bad_q else
                 'every path from the quota check passes engine.insert (already_exists edge excepted)')
    b = server.handler(ctx, 'C14.R2', 'bulk_load_hnsw', 'KyroDBServiceImpl::tenant_context')
    ov = flow.Origin(b, stop_at_vars=True)
    loads = b.calls_to('TieredEngine::bulk_load_cold_tier')
    ctx.floor('C14.R2', 'bulk_load_cold_tier sites in bulk_load_hnsw', len(loads), 2, 'in-stream batch and final batch')
    rel = b.calls_to('KyroDBServiceImpl::release_reserved_tenant_vectors')
    # "the reservation" = what is handed to reserve_tenant_vectors (each batch site has its own local for it): the amounts released are compared with that rendering,
    # not with a name; the historical name stays accepted
    reserved_amt = set(flow.render(ov.of_operand(x.args[2])) for x in b.calls_to('KyroDBServiceImpl::reserve_tenant_vectors') if len(x.args) > 2) | {'var:reserved_slots'}
    for k, c in enumerate(loads):
        s_e, f_e = flow.outcome_edges(b, c)
        if not f_e:
            ctx.inst('C14.R2', 'rpc bulk_load_hnsw', 'batch #%d: result tested' % k, False, 'result of bulk_load_cold_tier not tested')
            continue
        others = [x.bb for x in loads if x.bb != c.bb]
        # Err: release(reserved_slots) on every path before leaving
        starts = [e[1] for e in f_e]
        exits = set(b.return_blocks()) | set(x.bb for x in b.calls if x.is_('re:Streaming::message$')) | set(others)
        rel_full = [x.bb for x in rel if flow.render(ov.of_operand(x.args[2])) in reserved_amt]
        r = b.reach(starts, avoid_blocks=rel_full) | set(starts)
        bad = [x for x in exits if x in r]
        ctx.inst('C14.R2', 'rpc bulk_load_hnsw', 'batch #%d: Err ⇒ release(reserved_slots)' % k, bool(rel_full) and not bad,
                 'failure edge leaves without releasing the reservation' if bad else 'release(reserved_slots) on every failure path')
        # Ok: release(reserved − inserted_now) unless reserved_slots == 0
        starts = [e[1] for e in s_e]
        # the amount given back on success is "reserved − census of the reserved ids that now exist": full origin
        #   saturating_sub(len(S), count(filter(iter(S), |id| engine.exists(id))))  with len(S) the amount passed to reserve_tenant_vectors
        of_full = flow.Origin(b)
        reserved_full = set(flow.render(of_full.of_operand(x.args[2])) for x in b.calls_to('KyroDBServiceImpl::reserve_tenant_vectors'))

        def _census_release(x):
            r_ = flow.render(of_full.of_operand(x.args[2]))
            m_ = re.match(r'^num::saturating_sub\((.+?), <filter::Filter<I, P> as iterator::Iterator>::count\(Iterator::filter\(HashSet::iter\((.+?)\), closure:(.+::\{closure#\d+\})\{.*\}\)\)\)$', r_)
            if not m_:
                return False, 'amount is %s' % r_[:90]
            res_, set_, cl_ = m_.group(1), m_.group(2), m_.group(3)
            if res_ not in reserved_full or res_ != 'HashSet::len(%s)' % set_:
                return False, 'minuend %s is not the reserved amount len(%s)' % (res_[:40], set_[:30])
            cb_ = prog.bodies.get(cl_.strip()) or next((q for q in prog.family(b) if q.id == cl_.strip() or cl_.strip().startswith(q.id)), None)
            if cb_ is None:
                return False, 'census closure not found'
            ex_ = cb_.calls_to('TieredEngine::exists')
            ret_ = flow.render(flow.Origin(cb_).of_local(0))
            if not ex_ or not ret_.startswith('TieredEngine::exists('):
                return False, 'census predicate is %s' % ret_[:60]
            return True, 'reserved − |{reserved ids that exist}|'
        rel_part = [x.bb for x in rel if _census_release(x)[0]]
        rel_other = [(x, _census_release(x)[1]) for x in rel if not _census_release(x)[0] and flow.render(ov.of_operand(x.args[2])) not in reserved_amt]
        if rel_other and k == 0:
            ctx.inst('C14.R2', 'rpc bulk_load_hnsw', 'every partial release is computed from a census of the reserved ids', False,
                     'release at %s: %s — a count taken from the loader (failed / loaded) also counts rejected overwrites and duplicate ids that never reserved a slot' % (rel_other[0][0].loc, rel_other[0][1]))
        zero = []
        for i, blk in enumerate(b.blocks):
            if blk['t']['k'] == 'switch':
                for tg, p in flow.switch_edge_predicates(b, i, ov):
                    if p in ('!cmp[+ %s >= 1]' % v_ for v_ in reserved_amt):
                        zero.append((i, tg))
        r = b.reach(starts, avoid_blocks=rel_part, avoid_edges=zero) | set(starts)
        bad = [x for x in exits if x in r]
        ctx.inst('C14.R2', 'rpc bulk_load_hnsw', 'batch #%d: Ok ⇒ release(reserved − inserted_now)' % k, bool(rel_part) and bool(zero) and not bad,
                 'success edge leaves without releasing unused slots' if bad else 'unused reservation released on every success path (reserved = 0 excepted)')
        # reservation precedes the load and is propagated
    for k, c in enumerate(b.calls_to('KyroDBServiceImpl::reserve_tenant_vectors')):
        use = util.result_use(b, c)
        s_e = flow.success_edges(b, c)
        nxt = [x.bb for x in loads if x.bb in b.reach([e[1] for e in s_e])]
        r = b.reach([0], avoid_edges=s_e)
        ctx.inst('C14.R2', 'rpc bulk_load_hnsw', 'reservation #%d precedes its load, refusal propagated' % k, use == 'propagated' and bool(nxt),
                 'reserve result %s; a bulk load follows its success edge: %s' % (use, bool(nxt)))
        # same window for the batch reservation: from its success edge every path to a response / the next stream item passes the load (both outcomes release, above)
        # or a release of the reservation
        starts_r = [e[1] for e in s_e]
        cut_r = set(x.bb for x in loads) | set(x.bb for x in rel)
        exits_r = set(b.return_blocks()) | set(x.bb for x in b.calls if x.is_('re:Streaming::message$'))
        r_r = b.reach(starts_r, avoid_blocks=cut_r) | (set(starts_r) - cut_r)
        bad_r = [x for x in exits_r if x in r_r]
        ctx.inst('C14.R2', 'rpc bulk_load_hnsw', 'reservation #%d reaches its load or is released: no exit in between' % k, bool(starts_r) and not bad_r,
                 ('between the successful reserve_tenant_vectors at %s and the load a path leaves without releasing: %s' % (
                     c.loc, rt.path_witness(b, rt.find_path(b, starts_r, [bad_r[0]], avoid_blocks=cut_r) or [])[-5:])) if bad_r else 'every path from the reservation passes bulk_load_cold_tier')

    # what is reserved: the census release above gives back  reserved − |{reserved ids that exist after the load}|, which is exact only if the reserved set holds the ids
    # of the batch the engine did NOT hold before the load (an id that existed before exists afterwards too — reserving for it keeps its slot for good: an overwriting
    # batch fills the quota) and holds every one of them (an absent id that is not reserved is loaded uncounted).  Decided per batch site on the set whose size is
    # passed to reserve_tenant_vectors: every insertion into it lies behind the `engine.exists(id)` = false edge for the inserted id, and that edge always inserts
    def _named_copy(e):
        for _ in range(4):
            if e[0] != 'var':
                break
            e = ov.of_local(e[1])
        return e
    of_b = flow.Origin(b)
    n_sets = 0
    for k, c in enumerate(b.calls_to('KyroDBServiceImpl::reserve_tenant_vectors')):
        e = _named_copy(ov.of_operand(c.args[2])) if len(c.args) > 2 else ('const', '?', None)
        set_l = e[2][0][1] if e[0] == 'call' and flow.short(e[1]) == 'HashSet::len' and e[2] and e[2][0][0] == 'var' else None
        descr = 'reservation #%d: the reserved set holds exactly the ids the engine does not hold yet' % k
        if set_l is None:
            ctx.inst('C14.R2', 'rpc bulk_load_hnsw', descr, False, 'the reserved amount is not the size of a set of ids: %s' % flow.render(e)[:120])
            continue
        n_sets += 1
        puts = [x for x in b.calls if x.callee and re.search(r'HashSet(<.*>)?::insert$', x.callee) and len(x.args) > 1 and ov.of_operand(x.args[0])[:2] == ('var', set_l)]
        fills = [x for x in b.calls if x.callee and re.search(r'::(extend|from_iter|collect|append|union|push)$', x.callee) and x.args and
                 (ov.of_operand(x.args[0])[:2] == ('var', set_l) or (x.dest and not x.dest.get('p') and x.dest['l'] == set_l))]
        if not puts or fills:
            ctx.inst('C14.R2', 'rpc bulk_load_hnsw', descr, False, 'the reserved set is not filled by guarded HashSet::insert calls only (insert calls: %d, other fills: %s)' % (
                len(puts), [flow.short(x.callee) for x in fills]))
            continue
        problems = []
        for x in puts:
            idr = flow.render(of_b.of_operand(x.args[1]))
            absent = []
            for i, blk in enumerate(b.blocks):
                if blk['t']['k'] == 'switch' and i in b.live_blocks():
                    absent += [(i, tg) for tg, p in flow.switch_edge_predicates(b, i, of_b) if re.match(r'^!bool\[TieredEngine::exists\(.*, %s\)\]$' % re.escape(idr), p)]
            heads = [h for h in b.calls if h.callee and h.is_('re:Iterator>::next$') and b.dominates(h.bb, x.bb) and h.bb in b.reach([x.bb])]
            # the probe of THIS batch site: inside the loop that feeds this set (the other site renders its id the same way)
            absent = [(i, tg) for i, tg in absent if any(b.dominates(h.bb, i) for h in heads)]
            if not absent:
                # the probe may sit in the loop source instead: `for … in batch.iter().filter(|(id, ..)| !engine.exists(*id))`
                flt = False
                for h in heads:
                    a = h.args[0]
                    l_ = a['pl']['l'] if a.get('pl') else None
                    for _ in range(4):
                        nxt = [d[3]['rv']['pl']['l'] for d in b.defs.get(l_, []) if d[2] == 'assign' and d[3]['rv']['k'] == 'ref']
                        if not nxt:
                            break
                        l_ = nxt[0]
                    m_ = re.search(r'Iterator::filter\(.*?, closure:(.+?\{closure#\d+\})\{', flow.render(of_b.of_local(l_))) if l_ is not None else None
                    cb_ = next((q for q in prog.family(b) if m_ and (q.id == m_.group(1).strip() or q.id.endswith(m_.group(1).strip()))), None)
                    if cb_ is not None and re.match(r'^Not\(TieredEngine::exists\(', flow.render(flow.Origin(cb_).of_local(0))):
                        flt = True
                if not flt:
                    problems.append('the id inserted at %s is not tested with engine.exists first: an id that already exists (an overwrite) reserves a slot the census never gives back' % x.loc)
                continue
            if x.bb in b.reach([0], avoid_edges=absent):
                problems.append('the insertion at %s is reachable without the engine reporting the id absent: %s' % (
                    x.loc, rt.path_witness(b, rt.find_path(b, [0], [x.bb], avoid_edges=absent) or [])[-4:]))
            r_ = b.reach([tg for _, tg in absent], avoid_blocks=[y.bb for y in puts]) | (set(tg for _, tg in absent) - set(y.bb for y in puts))
            if not heads or any(h.bb in r_ for h in heads):
                problems.append('an id the engine reports absent can skip the insertion at %s: it is loaded without a reserved slot' % x.loc)
        ctx.inst('C14.R2', 'rpc bulk_load_hnsw', descr, not problems, '; '.join(problems) if problems else
                 '%d insertion(s), each on the engine.exists(id) = false edge of the inserted id, which always inserts' % len(puts))
    ctx.floor('C14.R2', 'batch sites whose reservation is the size of an id set', n_sets, 2, 'in-stream batch and final batch')

    ctx.rule('C14.R3', 'decrement by reported count: delete decrements 1 only on the `existed` edge of the engine result; '
                       'batch_delete decrements by the count the engine returned')
    d = server.handler(ctx, 'C14.R3', 'delete', 'KyroDBServiceImpl::tenant_context')
    # `existed` = the bool the engine's delete returns in Ok, whatever the handler calls it
    util.bind_role(d, 'existed', type_rx=r'^bool$', origin_rx=r'^TieredEngine::delete\(.*\)@Ok→Ok\.0$')
    ov = flow.Origin(d, stop_at_vars=True)
    dec = d.calls_to('KyroDBServiceImpl::decrement_tenant_vectors')
    ex = []
    for i, blk in enumerate(d.blocks):
        if blk['t']['k'] == 'switch':
            for tg, p in flow.switch_edge_predicates(d, i, ov):
                if p == 'bool[var:existed]':
                    ex.append((i, tg))
    if not dec or not ex:
        ctx.missing('C14.R3', 'rpc delete: decrement / existed test')
    else:
        r = d.reach([0], avoid_edges=ex)
        full = flow.render(flow.Origin(d).of_local(d.var_local('existed')[0])) if d.var_local('existed') else '?'
        ok = all(c.bb not in r for c in dec) and flow.render(ov.of_operand(dec[0].args[2])) == '1' and 'TieredEngine::delete' in full
        ctx.inst('C14.R3', 'rpc delete', 'decrement(1) only when the engine reports the document existed', ok,
                 'existed = %s' % full[:120])
        # and every path of the existed edge decrements
        exits = set(d.return_blocks())
        rr = d.reach([e[1] for e in ex], avoid_blocks=[c.bb for c in dec]) | set(e[1] for e in ex)
        # the `existed` variable is tested twice (count update, logging): only the first test's true edge must decrement
        first = min(ex)
        rr = d.reach([first[1]], avoid_blocks=[c.bb for c in dec]) | {first[1]}
        ctx.inst('C14.R3', 'rpc delete', 'existed ⇒ decrement on every path', not any(x in rr for x in exits),
                 'a response is built on the existed edge without decrementing' if any(x in rr for x in exits) else 'existed edge always decrements')
    bd = server.handler(ctx, 'C14.R3', 'batch_delete', 'KyroDBServiceImpl::tenant_context')
    dec = bd.calls_to('KyroDBServiceImpl::decrement_tenant_vectors')
    if not dec:
        ctx.missing('C14.R3', 'rpc batch_delete: decrement')
    else:
        r = flow.render(flow.Origin(bd).of_operand(dec[0].args[2]))
        e = flow.Origin(bd).of_operand(dec[0].args[2])
        while e[0] == 'cast':
            e = e[1]
        # exactly the Ok payload of the engine call(s): field(.0) of downcast(Ok) of call/phi-of-calls to TieredEngine::batch_delete*
        ok = False
        if e[0] == 'field' and e[1][0] == 'downcast' and e[1][2] == 'Ok':
            src = e[1][1]
            alts = src[1] if src[0] == 'phi' else [src]
            ok = bool(alts) and all(a[0] == 'call' and re.search(r'TieredEngine::batch_delete(_by_metadata_filter)?$', a[1]) for a in alts)
        ctx.inst('C14.R3', 'rpc batch_delete', 'decrement by the engine-reported count', ok, 'decrement argument: %s' % r[:260])

    # the count BatchDelete decrements by is a count of DISTINCT live ids: the engine counts over a sorted, de-duplicated copy of the request's ids
    # (a repeated id of one live document must free one slot, not two) and deletes that same list
    tbd = ctx.body('C14.R3', 'TieredEngine::batch_delete')
    if tbd is not None:
        tv = flow.Origin(tbd, stop_at_vars=True)
        cnt = [c for c in tbd.calls if c.callee and re.search(r'Iterator>?::count$', c.callee)]
        src = None
        if cnt:
            m_ = re.match(r'^Iterator::filter\(slice::iter\((var:\w+)\), closure:', flow.render(tv.of_operand(cnt[0].args[0], 0, frozenset({-1}))))
            src = m_.group(1) if m_ else None
        srt = [c for c in tbd.calls if c.callee and re.search(r'slice::sort(_unstable)?$', flow.short(c.callee)) and src and flow.render(tv.of_operand(c.args[0], 0, frozenset({-1}))) == src]
        ddp = [c for c in tbd.calls if c.callee and c.callee.endswith('Vec::dedup') and src and flow.render(tv.of_operand(c.args[0], 0, frozenset({-1}))) == src]
        dels = [c for c in tbd.calls if c.callee and re.search(r'(HnswBackend|HotTier)::batch_delete$', c.callee)]
        same_list = bool(dels) and all(flow.render(tv.of_operand(c.args[1], 0, frozenset({-1}))) == src for c in dels)
        ret = flow.render(flow.Origin(tbd).of_local(0))
        ok = bool(cnt) and src is not None and bool(srt) and bool(ddp) and tbd.dominates(srt[0].bb, ddp[0].bb) and tbd.dominates(ddp[0].bb, cnt[0].bb) and same_list and 'Iterator>::count(' in ret
        ctx.inst('C14.R3', tbd.short, 'the reported count is taken over a sorted, de-duplicated id list, which is also what both tiers delete', ok,
                 'count over %s; sort ≺ dedup ≺ count: %s; tiers delete the same list: %s' % (src, bool(srt) and bool(ddp), same_list))
    ctx.rule('C14.R4', 'the start-up recount of every tenant (ids_for_metadata_filter) completes before the gRPC service is added to the server')
    m = server.main_body(ctx, 'C14.R4', 'TieredEngine::recover')
    # roles in main: the count table = the Option<RwLock<HashMap<String, usize>>> local (what ServerState.tenant_vector_counts holds); the map being filled = the
    # HashMap<String, usize> that is wrapped into that lock
    util.bind_role(m, 'tenant_vector_counts', type_rx=r'^core::option::Option<lock_api::rwlock::RwLock<.*HashMap<alloc::string::String, usize>>>$')
    util.bind_role(m, 'counts', type_rx=r'(^|[^\w:])std::collections::hash::map::HashMap<alloc::string::String, usize>$', used_as=(r'RwLock::new$', 0))
    fam = prog.family(m)
    rc = [(b, c) for b in fam for c in b.calls if c.callee and c.is_('re:ids_for_metadata_filter$', 're:count_tenant_vectors', 're:recount')]
    adds = [c for c in m.calls if c.callee and c.is_('re:Router.*::add_service$', 're:Server.*::add_service$', 're:::add_service$', 're:serve_with')]
    if not rc or not adds:
        ctx.missing('C14.R4', 'main: recount call (%d) / add_service (%d)' % (len(rc), len(adds)))
    else:
        # recount sites directly in main's body (or closures created there)
        sites = []
        for b, c in rc:
            if b.id == m.id:
                sites.append(c.bb)
            else:
                cur = b
                by_id = {x.id: x for x in fam}
                while cur is not None and cur.parent != m.id:
                    cur = by_id.get(cur.parent)
                if cur is not None:
                    for bb, cbs in __import__('kvstatic.callgraph', fromlist=['sync_calls']).sync_calls(prog).get(m.id, {}).items():
                        if any(x.id == cur.id for x in cbs):
                            sites.append(bb)
        # the recount is conditional on auth being enabled, so it cannot dominate; require instead that it never runs
        # after the service is exposed, that it flows into the ServerState the service is built from, and that this
        # ServerState is complete before add_service
        after_add = set()
        for a in adds:
            after_add |= m.reach([a.bb])
        late = [s_ for s_ in sites if s_ in after_add]
        st = util.agg_blocks(m, r'ServerState$')
        st_dom = bool(st) and all(any(m.dominates(x, a.bb) for x in st) for a in adds)
        feeds = bool(st) and all(any(x in (m.reach([s_]) | {s_}) for x in st) for s_ in sites)
        tv = m.var_local('tenant_vector_counts')
        org = flow.render(flow.Origin(m).of_local(tv[0]))[:4000] if tv else ''
        ovm = flow.Origin(m, stop_at_vars=True)
        fill = [c for c in m.calls if c.callee and re.search(r'HashMap<.*>::insert$|HashMap::insert$', c.callee) and len(c.args) >= 3
                and flow.render(ovm.of_operand(c.args[0])) == 'var:counts']
        from_recount = bool(fill) and any('ids_for_metadata_filter' in flow.render(flow.Origin(m).of_operand(c.args[2])) for c in fill) \
            and 'var:counts' in flow.render(ovm.of_local(tv[0]) if tv else ('const', '', None))
        ok = bool(sites) and not late and st_dom and feeds and from_recount
        ctx.inst('C14.R4', 'kyrodb_server::main', 'recount precedes serving and feeds the served state', ok,
                 'recount sites at %s; after add_service: %s; ServerState built before add_service: %s; recount reaches it: %s; '
                 'tenant_vector_counts originates from the recount: %s' % ([m.loc_of(s_) for s_ in sites], bool(late), st_dom, feeds, from_recount))
    # ------------------------------------------------------------------ R5 the engine never reports a partly applied bulk load as Err
    ctx.rule('C14.R5', 'BulkLoadHnsw releases the WHOLE reservation of a batch on the Err edge of TieredEngine::bulk_load_cold_tier (C14.R2). That is exact only if Err '
                       'means "nothing was loaded": once one document of the batch is durable in the cold tier the engine function has no Err return left — failures '
                       'after that are reported per item in the Ok value (same analysis as C03.R7)')
    from rules import C03 as _C03
    n5 = _C03.no_failure_after_canonical(ctx, prog, 'C14.R5', ('TieredEngine::bulk_load_cold_tier',))
    ctx.floor('C14.R5', 'canonical inserts in bulk_load_cold_tier', n5, 1, 'the per-document insert')
    # ------------------------------------------------------------------ R6 the quota lock is ONE mutex per tenant
    ctx.rule('C14.R6', 'C14.R1 reads "the quota lock is held" as mutual exclusion between two requests of one tenant; that needs tenant_quota_lock to hand every caller '
                       'the SAME mutex for a tenant: every Some(..) it returns is the entry of the tenant_quota_locks map under the tenant\'s id (a lookup, or '
                       'entry(..).or_insert*), never a mutex created in the function itself, and the function never replaces or removes an entry')
    ql = ctx.body('C14.R6', 'KyroDBServiceImpl::tenant_quota_lock')
    if ql is not None:
        alts = flow.top_alternatives(flow.Origin(ql).of_local(0))
        somes, bad6 = 0, []
        for a in alts:
            r = flow.render(a)
            if r.startswith('option::Option::Some{'):
                somes += 1
                names = set(flow.short(x) for x in _calls_of(a))
                looked_up = any(re.search(r'HashMap(<.*>)?::get$', n) for n in names)
                entered = any(re.search(r'HashMap(<.*>)?::entry$', n) for n in names) and any(re.search(r'Entry(<.*>)?::or_(insert_with|insert|default)$', n) for n in names)
                fresh = any(re.search(r'(Arc|Mutex)(<.*>)?::(new|default)$', n) for n in names) and not entered
                if not ((looked_up or entered) and 'tenant_quota_locks' in r and 'TenantContext.tenant_id' in r and not fresh):
                    bad6.append(r[:200])
            elif 'from_residual' in r or r.startswith('const') or 'Option::None' in r:
                continue
            else:
                bad6.append('unrecognised return alternative: ' + r[:200])
        repl = [flow.short(c.callee) + ' at ' + c.loc for c in ql.calls if c.callee and re.search(r'HashMap(<.*>)?::(insert|remove|clear|retain|drain)$', flow.short(c.callee))]
        ctx.inst('C14.R6', 'KyroDBServiceImpl::tenant_quota_lock', 'every returned mutex is the map entry of the tenant id; no entry is replaced or removed',
                 somes >= 1 and not bad6 and not repl,
                 '%d Some alternatives; not a map entry under the tenant id: %s; replacing / removing calls: %s' % (somes, bad6, repl))
        ctx.floor('C14.R6', 'Some(..) alternatives returned by tenant_quota_lock', somes, 2, 'the read-path lookup and the write-path entry')
    ctx.stat('functions_analysed', len(HANDLERS) + 1)
