"""C15 — every request gets an answer and invalid input is refused without effect.

Decided statically: panic containment is installed around every RPC (both the synchronous call and the returned future);
every path from an RPC handler to the write-ahead log goes through the backend mutators whose pre-log guards cover every
rejection class of the index (so a refused item has no effect, live or after restart, on every write path); request
validators refuse each invalid class before the engine is touched; every streaming / repeated-field RPC bounds its batch;
the build keeps the two things the containment rests on that no MIR body shows: panics unwind (no panic=abort profile / rustflags) and
prost keeps its decode recursion limit (the schema has self-containing filter messages).
That the server "keeps serving" under resource exhaustion is not decided.
"""
import glob
import json
import os
import re
import subprocess
import tomllib

from kvstatic import extract, flow, rt, util, server
from kvstatic.effects import Effects
from kvstatic.callgraph import sync_calls, callers_index
from rules import C03

MANIFEST = {
    'text': 'Decides the structural clauses behind "answered, and refused without effect": the panic-containment layer wraps '
            'inner.call in catch_unwind and the returned future in FutureExt::catch_unwind and is installed before add_service; the '
            'only callers of WalWriter::append* are the four backend mutators and the insert mutator checks DIM/FINITE/FULL/NORM '
            'before appending (engine-level funnel, so bulk paths are covered too); the request validators have one refusing guard '
            'per invalid class, dominating the engine; five batch bounds; build configuration: no panic=abort (catch_unwind would be void), prost without '
            'no-recursion-limit (the nesting depth of MetadataFilter is otherwise unbounded). Necessary conditions; liveness under resource exhaustion is not decided.',
    'design_ref': 'DESIGN.md §4.15',
    'note': 'Trusted base: rustc MIR, the C03.R1 class table (shared code), guard normal forms.',
    'technique': 'dominance + guard-table checks + who-may-call over the call graph on MIR',
}

EXPLANATION = 'DOM/FLOW/WMC/GUARD/INV rules of DESIGN §4.15 over the server binary, api_validation.rs and the backend write funnel.'


def guards_refusing(body, table, ov=None):
    """For each (name, regex of the failing predicate): a switch edge matching it from which no Ok return is reachable."""
    ov = ov or flow.Origin(body, stop_at_vars=True)
    errs = flow.err_blocks(body)
    out = {}
    for i, blk in enumerate(body.blocks):
        if blk['t']['k'] != 'switch' or i not in body.live_blocks():
            continue
        for tg, p in flow.switch_edge_predicates(body, i, ov):
            for name, rx in table:
                if re.match(rx, p):
                    if name == 'finite' and not util.finite_closure(body.prog, p):
                        continue
                    r = body.reach([tg], avoid_blocks=errs) | ({tg} - errs)
                    refuses = not any(x in r for x in body.return_blocks())
                    out.setdefault(name, []).append((i, tg, refuses, p))
    return out


def _bind_stream_roles(b):
    """Roles of the locals of a streaming / batching RPC body, found by what defines or uses them (a pure rename in /repo changes nothing for the rules).
    Call before any Origin of `b` is created."""
    # the stream item: the insert request received from the client stream
    util.bind_role(b, 'req', type_rx=r'proto::InsertRequest$', origin_rx=r'Streaming::message\(', full=True)
    # the accumulated batch: the vector whose content is handed on (mem::take) to the engine / the batch executor
    util.bind_role(b, 'documents', type_rx=r'^alloc::vec::Vec<\(u64, alloc::vec::Vec<f32>', used_as=(r'mem::take$', 0))
    util.bind_role(b, 'pending', type_rx=r'^alloc::vec::Vec<kyrodb_engine::proto::SearchRequest>$', used_as=(r'mem::take$', 0))
    # the size of a repeated-field request: the length of its id list
    util.bind_role(b, 'total_requested', type_rx=r'^u(32|64|size)$', origin_rx=r'^Vec::len\(.*BulkQueryRequest\.doc_ids\)$', full=True)


def _item_counter(b, sinks):
    """The user variable that counts the items handed to `sinks` (blocks), whatever it is called: an integer that starts at a constant and is only ever
    incremented by 1, with an increment on every path from the entry to a sink and between two sinks — so the number of sink executions never exceeds it.
    (Other counters of the same shape — failures, successes — are incremented on some paths only, or after the sink.)  Local number, or None unless exactly one."""
    of = flow.Origin(b)
    sinks = set(sinks)
    out = []
    for l, names in sorted(b.varnames.items()):
        if not names or not re.match(r'^[ui](8|16|32|64|128|size)$', b.locals[l]):
            continue
        incs, other = set(), 0
        for (bb, idx, kind, payload) in b.defs.get(l, []):
            r = flow.render(of.of_rvalue(payload['rv'], 0, frozenset({l}))) if kind == 'assign' else '?'
            if re.match(r'^\(_%d Add(WithOverflow)? 1\)(\.0)?$' % l, r):
                incs.add(bb)
            elif not re.match(r'^\d+$', r):
                other += 1
        if other or not incs:
            continue
        before = (b.reach([0], avoid_blocks=incs) | {0}) - incs
        between = set()
        for s_ in sinks:
            between |= b.reach(b.succ(s_), avoid_blocks=incs) | (set(b.succ(s_)) - incs)
        if not (before & sinks) and not (between & sinks):
            out.append(l)
    return out[0] if len(out) == 1 else None


def _is_query(b, tok):
    """`tok` (arg:x / var:x) is the query of a search entry point: the `query` parameter (or its copy in the async body), or — in the batch entry point — an
    element of the `queries` parameter, whatever the loop variable is called."""
    if tok in ('arg:query', 'var:query'):
        return True
    if not tok.startswith('var:'):
        return False
    of = flow.Origin(b)
    return any(re.search(r'Iterator>::next\(.*\barg:queries\b', flow.render(of.of_local(l))) for l in b.var_local(tok[4:]))


def _finite_closure(prog, pred):
    """the any(..) closure is `|v| !v.is_finite()`"""
    m = re.search(r'closure:([\w:<> ]*?\{closure#\d+\})', pred)
    if not m:
        return False
    for b in prog.bodies.values():
        if b.kind == 'Closure' and b.id.endswith(m.group(1)):
            r = flow.render(flow.Origin(b).of_local(0))
            if re.match(r'^Not\((core::)?f32::is_finite\(.*\)\)$', r) or re.match(r'^Not\(.*is_finite\(.*\)\)$', r):
                return True
    return False


def _toml(path):
    try:
        with open(path, 'rb') as fh:
            return tomllib.load(fh)
    except (OSError, tomllib.TOMLDecodeError):
        return None


def build_configuration(root):
    """Facts of the BUILD of the tree under check that no MIR body shows (the same files the extraction key covers: workspace manifest, member manifests,
    .cargo/config.toml), read as TOML tables — not as text:
      aborts    where the build selects panic=abort: [profile.*] of the workspace manifest / of .cargo/config.toml, or -C panic=abort in configured rustflags
      manifests the manifests read (workspace root first)
      dep_features(pkg)  [(manifest, where, features)] for every declaration of dependency `pkg` in those manifests, plus [features] entries that forward to it"""
    rootm = _toml(os.path.join(root, 'Cargo.toml'))
    manifests = [('Cargo.toml', rootm)] if rootm is not None else []
    for pat in ((rootm or {}).get('workspace', {}).get('members') or []):
        for d in sorted(glob.glob(os.path.join(root, pat))):
            m = _toml(os.path.join(d, 'Cargo.toml'))
            if m is not None and os.path.relpath(d, root) != '.':
                manifests.append((os.path.join(os.path.relpath(d, root), 'Cargo.toml'), m))
    cfgs = [(n, _toml(os.path.join(root, n))) for n in ('.cargo/config.toml', '.cargo/config')]
    cfgs = [(n, c) for n, c in cfgs if c is not None]
    aborts = []
    for n, t in manifests[:1] + cfgs:      # cargo reads profiles from the workspace root manifest and from the configuration only
        for prof, tab in sorted((t.get('profile') or {}).items()):
            if isinstance(tab, dict) and tab.get('panic') == 'abort':
                aborts.append('%s: [profile.%s] panic = "abort"' % (n, prof))
    for n, t in cfgs:
        flagsets = [('build', (t.get('build') or {}).get('rustflags'))] + [('target.' + k, v.get('rustflags')) for k, v in sorted((t.get('target') or {}).items()) if isinstance(v, dict)]
        for where, fl in flagsets:
            toks = fl.split() if isinstance(fl, str) else [str(x) for x in (fl or [])]
            joined = ' '.join(toks).replace('-C ', '-C')
            if re.search(r'-Cpanic=abort\b', joined):
                aborts.append('%s: [%s] rustflags select -C panic=abort' % (n, where))

    def dep_features(pkg):
        out = []
        for n, t in manifests:
            tables = [('workspace.dependencies', (t.get('workspace') or {}).get('dependencies'))]
            for kind in ('dependencies', 'dev-dependencies', 'build-dependencies'):
                tables.append((kind, t.get(kind)))
                for tg, tv in sorted((t.get('target') or {}).items()):
                    if isinstance(tv, dict):
                        tables.append(('target.%s.%s' % (tg, kind), tv.get(kind)))
            for where, tab in tables:
                for key, spec in sorted((tab or {}).items()):
                    name = spec.get('package', key) if isinstance(spec, dict) else key
                    if name == pkg:
                        out.append((n, '[%s] %s' % (where, key), list(spec.get('features') or []) if isinstance(spec, dict) else []))
            for feat, vals in sorted((t.get('features') or {}).items()):
                fw = [v.split('/', 1)[1] for v in vals if isinstance(v, str) and re.match(r'^%s\??/' % re.escape(pkg), v)]
                if fw:
                    out.append((n, '[features] %s' % feat, fw))
        return out
    return {'aborts': aborts, 'manifests': [n for n, _ in manifests], 'configs': [n for n, _ in cfgs], 'dep_features': dep_features}


def resolved_features(root, pkg):
    """(features cargo's resolver enables for `pkg` with every workspace feature on, features `pkg` declares) from `cargo metadata` (offline, locked: reads only);
    (None, None) when the resolver cannot be asked — the manifests then decide alone"""
    env = dict(os.environ, CARGO_NET_OFFLINE='true')
    for extra in (['--all-features'], []):
        try:
            r = subprocess.run(['cargo', 'metadata', '--offline', '--locked', '--format-version', '1', '--manifest-path', os.path.join(root, 'Cargo.toml')] + extra,
                               env=env, stdout=subprocess.PIPE, stderr=subprocess.DEVNULL, text=True, timeout=120)
            if r.returncode != 0:
                continue
            d = json.loads(r.stdout)
        except (OSError, ValueError, subprocess.SubprocessError):
            continue
        ids = set(p_['id'] for p_ in d.get('packages', []) if p_.get('name') == pkg)
        declared = set(f_ for p_ in d.get('packages', []) if p_.get('name') == pkg for f_ in (p_.get('features') or {}))
        on = set(f_ for n_ in (d.get('resolve') or {}).get('nodes', []) if n_.get('id') in ids for f_ in n_.get('features', []))
        if ids:
            return on, declared
    return None, None


def recursive_messages(prog):
    """request / response message types of the gRPC schema that (transitively) contain themselves: the depth of a decoded value of such a type is chosen by the client"""
    ps = {k: v for k, v in prog.adts.items() if '::proto::' in k}
    edges = {k: set(k2 for k2 in ps if any(re.search(r'(^|[<, (&])%s($|[>, )])' % re.escape(k2), f_['ty']) for vv in v['variants'] for f_ in vv['fields'])) for k, v in ps.items()}
    rec = []
    for k in sorted(ps):
        seen, work = set(), list(edges[k])
        while work:
            x = work.pop()
            if x in seen:
                continue
            seen.add(x)
            work += list(edges.get(x, ()))
        if k in seen:
            rec.append(k)
    return rec


def run(ctx, prog):
    ctx.not_decided = ['liveness under memory / file-descriptor exhaustion', 'tonic / hyper internals (frame limits, decoding errors)']
    # ------------------------------------------------------------------ R1
    ctx.rule('C15.R1', 'containment: the gRPC server is built with .layer(GrpcPanicContainmentLayer) before add_service; the layer\'s call wraps '
                       'inner.call in panic::catch_unwind and the returned future in FutureExt::catch_unwind, both Err arms answer with grpc_internal_panic_response; '
                       'and the build lets panics unwind (no [profile.*] panic = "abort" in the workspace manifest or .cargo/config.toml, no -C panic=abort in configured rustflags)')
    m = server.main_body(ctx, 'C15.R1', 'TieredEngine::recover')
    mo = flow.Origin(m)
    adds = [c for c in m.calls if c.callee and c.is_('re:::add_service$')]
    lay = [c for c in m.calls if c.callee and c.callee.endswith('::layer') and 'GrpcPanicContainmentLayer' in ' '.join(c.ga)]
    ok = bool(adds) and bool(lay)
    det = ''
    if ok:
        recv = flow.render(mo.of_operand(adds[0].args[0]))
        ok = all(any(m.dominates(l.bb, a.bb) for l in lay) for a in adds) and ('layer(' in recv or 'grpc_builder' in flow.render(flow.Origin(m, stop_at_vars=True).of_operand(adds[0].args[0])))
        det = 'add_service receiver: %s' % recv[:140]
    ctx.inst('C15.R1', 'kyrodb_server::main', 'panic containment layer installed before add_service', ok, det or 'layer calls %d, add_service calls %d' % (len(lay), len(adds)))
    call = None
    for b in prog.bodies.values():
        if b.crate == 'kyrodb_server' and re.search(r'GrpcPanicContainmentService<S> as .*Service<.*>>::call$', b.id):
            call = b
    if call is None:
        ctx.missing('C15.R1', 'GrpcPanicContainmentService::call')
    else:
        fam = prog.family(call)
        cu = [c for c in call.calls if c.callee and c.callee.endswith('panic::catch_unwind')]
        inner_in_closure = any(b.kind == 'Closure' and any(c.callee and c.callee.endswith('Service::call') or (c.orig or '').endswith('Service::call') for c in b.calls) for b in fam)
        direct_inner = [c for c in call.calls if (c.orig or '').endswith('tower_service::Service::call')]
        ctx.inst('C15.R1', 'GrpcPanicContainmentService::call', 'inner.call runs inside panic::catch_unwind', bool(cu) and inner_in_closure and not direct_inner,
                 'catch_unwind calls %d; inner.call inside the guarded closure: %s; unguarded inner.call: %d' % (len(cu), inner_in_closure, len(direct_inner)))
        fut = [b for b in fam if b.kind == 'Closure' and any(blk['t']['k'] == 'yield' for blk in b.blocks)]
        okf = False
        det = 'no async block'
        if fut:
            f = fut[0]
            fcu = [c for c in f.calls if c.callee and re.search(r'FutureExt::catch_unwind$', c.callee) or (c.orig or '').endswith('FutureExt::catch_unwind')]
            resp = f.calls_to('kyrodb_server::grpc_internal_panic_response')
            # the awaited future is the catch_unwind-wrapped one; no other await of the inner future
            polls = [c for c in f.calls if (c.orig or '').endswith('Future::poll') or (c.callee or '').endswith('Future>::poll')]
            okf = bool(fcu) and len(resp) >= 2 and len(polls) == 1
            det = 'FutureExt::catch_unwind calls %d; panic responses %d; awaited futures %d' % (len(fcu), len(resp), len(polls))
        ctx.inst('C15.R1', 'GrpcPanicContainmentService::call', 'the returned future is awaited inside catch_unwind; both Err arms answer', okf, det)
        pr = ctx.body('C15.R1', 'kyrodb_server::grpc_internal_panic_response')
        ctx.inst('C15.R1', pr.short, 'panic response is a well-formed gRPC status', any('Status::internal' in (c.callee or '') or 'Status::new' in (c.callee or '') or 'to_http' in (c.callee or '') or 'into_http' in (c.callee or '') for c in pr.calls), '')

    # catch_unwind contains a panic only when panics unwind: with panic=abort both catch_unwind calls above are dead code and the first panicking handler ends the
    # process — no later request gets an answer.  The panic strategy is a fact of the build configuration, not of any MIR body
    bc = build_configuration(extract.repo_root())
    if not bc['manifests']:
        ctx.missing('C15.R1', 'workspace manifest Cargo.toml (build profiles)')
    else:
        ctx.inst('C15.R1', 'build configuration', 'panics unwind: no profile and no configured rustflags select panic=abort', not bc['aborts'],
                 ('%s — catch_unwind cannot contain a panic in a build that aborts on panic: the containment layer is void and a panicking handler takes the server down' % '; '.join(bc['aborts'])[:300])
                 if bc['aborts'] else 'read %s: no [profile.*] panic = "abort", no -C panic=abort' % ', '.join(bc['manifests'][:1] + bc['configs']))
    # ------------------------------------------------------------------ R2
    ctx.rule('C15.R2', 'validator before the log on every write path: WalWriter::append* is called only by the four backend mutators; '
                       'HnswBackend::insert refuses wrong dimension, non-finite, full and un-normalisable vectors before the append (engine-level '
                       'funnel: holds for single insert, streaming insert and bulk load alike); the insert RPC additionally validates id ≥ 1, '
                       'non-empty, ≤ MAX_DIM, finite before touching the engine')
    eff = Effects(prog)
    eff.define('wal_append', 'WalWriter::append', 'WalWriter::append_batch')
    ac = sorted(set(c.body.short.split('::{')[0] for c in prog.callers_of('WalWriter::append', 'WalWriter::append_batch')))
    want_a = sorted('hnsw_backend::HnswBackend::' + x for x in ['insert', 'delete', 'update_metadata', 'batch_delete'])
    ctx.inst('C15.R2', 'WalWriter::append*', 'only the four backend mutators write the log', ac == want_a, 'callers: %s' % ac)
    ins = ctx.body('C15.R2', 'HnswBackend::insert')
    app = eff.blocks(ins, 'wal_append')
    first = [min(app)] if app else []
    if first:
        g, p, why = C03.find_guard(ins, first, r'^bool\[.*Iterator>::any\((?:slice::iter|.*iter)\(arg:embedding\), closure:.*\)\]$', extra=lambda p_: util.finite_closure(prog, p_),
                                   structural=C03.finite_flag_guards(ins))   # also the explicit-loop form of the same check (flag set in a loop over the whole embedding)
        ctx.inst('C15.R2', ins.short, 'non-finite vectors refused before the log on every write path', g is not None, ('guard at %s' % ins.loc_of(g)) if g is not None else why)
        g, p, why = C03.find_guard(ins, first, r'^!cmp\[\+ .*(HnswBackend::dimension\(arg:self\) - (?:Vec|slice)[\w:<>, ]*::len\(arg:embedding\)|len\(arg:embedding\) - HnswBackend::dimension\(arg:self\)) == 0\]$',
                                   exempt_rx=r'^cmp\[\+ HnswBackend::dimension\(arg:self\) == 0\]$')
        ctx.inst('C15.R2', ins.short, 'wrong dimension refused before the log', g is not None, ('guard at %s' % ins.loc_of(g)) if g is not None else why)
        nz = ins.calls_to('hnsw_backend::normalize_in_place_if_needed')
        okn = bool(nz) and util.result_use(ins, nz[0]) == 'propagated' and first[0] not in ins.reach([0], avoid_edges=flow.success_edges(ins, nz[0]))
        ctx.inst('C15.R2', ins.short, 'zero / overflowing norm refused before the log', okn, 'normalize_in_place_if_needed propagated and dominating the append: %s' % okn)
    # every engine write entry used by the server funnels into HnswBackend::insert
    for fn in ('TieredEngine::insert', 'TieredEngine::bulk_load_cold_tier'):
        f = ctx.body('C15.R2', fn)
        ctx.inst('C15.R2', f.short, 'writes through HnswBackend::insert', bool(f.calls_to('HnswBackend::insert')), '')
    vi = ctx.body('C15.R2', 'api_validation::validate_insert_request')
    TAB = [('id ≥ 1', r'^cmp\[\+ arg:req→InsertRequest\.doc_id <= 0\]$'),
           ('non-empty', r'^bool\[Vec::is_empty\(arg:req→InsertRequest\.embedding\)\]$'),
           ('≤ MAX_DIM', r'^cmp\[\+ Vec::len\(arg:req→InsertRequest\.embedding\) >= 4097\]$'),
           ('finite', r'^bool\[.*Iterator>::any\(.*InsertRequest\.embedding.*closure:.*\)\]$')]
    gr = guards_refusing(vi, TAB)
    for name, _ in TAB:
        es = gr.get(name, [])
        ctx.inst('C15.R2', vi.short, 'refuses: %s' % name, bool(es) and all(e[2] for e in es), 'guard: %s' % ([e[3][:90] for e in es][:1]))
    ih = server.handler(ctx, 'C15.R2', 'insert', 'KyroDBServiceImpl::tenant_context')
    vc = ih.calls_to('api_validation::validate_insert_request')
    okv = bool(vc) and flow.outcome_edges(ih, vc[0])[0] is not None   # the verdict is tested directly, not converted
    if okv:
        s_e = flow.success_edges(ih, vc[0])
        eng = [c.bb for c in ih.calls if c.callee and 'TieredEngine::' in c.callee]
        r0 = ih.reach([0], avoid_edges=s_e)
        okv = bool(eng) and all(x not in r0 for x in eng)
    ctx.inst('C15.R2', 'rpc insert', 'request validated before any engine call', okv, '')
    # streaming handlers: per-item guards (id, empty, MAX_DIM) skip the item before the engine / the queue
    for h, sink_rx in (('bulk_insert', r'TieredEngine::insert$'), ('bulk_load_hnsw', r'::push$')):
        b = server.handler(ctx, 'C15.R2', h, 'KyroDBServiceImpl::tenant_context')
        _bind_stream_roles(b)    # req = the stream item, documents = the accumulated batch
        ov = flow.Origin(b, stop_at_vars=True)
        sinks = [c.bb for c in b.calls if c.callee and re.search(sink_rx, c.callee) and (h == 'bulk_insert' or flow.render(ov.of_operand(c.args[0])) == 'var:documents')]
        ITEM = [('id ≥ 1', r'^cmp\[\+ var:req→\w+\.doc_id <= 0\]$'), ('non-empty', r'^bool\[Vec::is_empty\(var:req→\w+\.embedding\)\]$'),
                ('≤ MAX_DIM', r'^cmp\[\+ Vec::len\(var:req→\w+\.embedding\) >= 4097\]$')]
        for name, rx in ITEM:
            fail = [(i, tg) for i, blk in enumerate(b.blocks) if blk['t']['k'] == 'switch' for tg, p in flow.switch_edge_predicates(b, i, ov) if re.match(rx, p)]
            okg = bool(fail) and bool(sinks)
            if okg:
                # from the failing edge the sink is not reachable before the next stream message
                msgs = [c.bb for c in b.calls if c.callee and re.search(r'Streaming::message$', c.callee)]
                r = b.reach([e[1] for e in fail], avoid_blocks=msgs)
                okg = not any(x in r for x in sinks)
            ctx.inst('C15.R2', 'rpc ' + h, 'item refused without effect: %s' % name, okg, 'failing edges: %s' % fail[:1])

    # the engine-level funnel refuses every rejection class of the index before the log (same table as C03.R1): an item refused after the
    # append is answered with an error, but its compensating Delete erases the previously acknowledged version on replay
    C03.rejection_classes(ctx, prog, 'C15.R2', eff)
    # tenant-local ids beyond 32 bits are refused before anything reaches the engine (same instance as C10.R2): accepted, they alias another document
    from rules import C10 as _c10
    _c10.id_range_refusal(ctx, prog, 'C15.R2')
    mp_ = ctx.body('C15.R2', 'KyroDBServiceImpl::map_doc_id')
    if mp_ is not None:
        mo_ = flow.Origin(mp_)
        tgc = [c for c in mp_.calls if c.callee and c.callee.endswith('TenantIdMapper::to_global_doc_id')]
        use_ = util.result_use(mp_, tgc[0]) if tgc else 'missing'
        r_ = flow.render(mo_.of_local(0))
        ctx.inst('C15.R2', mp_.short, 'map_doc_id hands the range refusal to the caller (INVALID_ARGUMENT)', bool(tgc) and ('to_global_doc_id' in r_) and use_ in ('propagated', 'returned', 'continues'),
                 'to_global_doc_id result is %s; map_doc_id returns %s' % (use_, r_[:120]))
    # sibling limits: the server's inline checks on the bulk paths and the validator module state the same limits
    nc15 = prog.named_constants()
    for nm in ('MAX_EMBEDDING_DIM', 'MIN_DOC_ID'):
        a_, b_ = nc15.get('kyrodb_engine::api_validation::' + nm), nc15.get('kyrodb_server::' + nm)
        ctx.inst('C15.R2', 'constants', 'server and validator agree on %s' % nm, a_ is not None and a_ == b_, 'api_validation::%s = %s, kyrodb_server::%s = %s' % (nm, a_, nm, b_))
    # ------------------------------------------------------------------ R3
    ctx.rule('C15.R3', 'search validation: validate_search_request refuses empty, over-long and non-finite queries, k = 0, k > MAX_KNN_K and '
                       'ef_search > 10000; both search executors call it and reach the engine only past its success; nothing else in the binary '
                       'calls the engine\'s search entry points')
    vs = ctx.body('C15.R3', 'api_validation::validate_search_request')
    TAB = [('non-empty', r'^bool\[Vec::is_empty\(arg:req→SearchRequest\.query_embedding\)\]$'),
           ('≤ MAX_DIM', r'^cmp\[\+ Vec::len\(arg:req→SearchRequest\.query_embedding\) >= 4097\]$'),
           ('finite', r'^bool\[.*Iterator>::any\(.*SearchRequest\.query_embedding.*closure:.*\)\]$'),
           ('k ≥ 1', r'^cmp\[\+ arg:req→SearchRequest\.k == 0\]$'),
           ('k ≤ MAX_KNN_K', r'^cmp\[\+ arg:req→SearchRequest\.k >= 1001\]$'),
           ('ef_search ≤ 10000', r'^cmp\[\+ arg:req→SearchRequest\.ef_search >= 10001\]$')]
    gr = guards_refusing(vs, TAB)
    for name, _ in TAB:
        es = gr.get(name, [])
        ctx.inst('C15.R3', vs.short, 'refuses: %s' % name, bool(es) and all(e[2] for e in es), 'guard: %s' % ([e[3][:90] for e in es][:1]))
    plan = [s for blk in vs.blocks for s in blk['s'] if s.get('rv', {}).get('k') == 'agg' and s['rv'].get('adt', '').endswith('SearchValidationPlan')]
    if plan:
        sk = flow.render(flow.Origin(vs).of_operand(plan[0]['rv']['ops'][plan[0]['rv']['fields'].index('search_k')]))
        ctx.inst('C15.R3', vs.short, 'search_k is capped', bool(re.search(r'min\(.*, 10000\)', sk)), 'search_k = %s' % sk[:120])
    sv = ctx.body('C15.R3', 'KyroDBServiceImpl::validate_search_request')
    # the refusal reaches the caller either through `?` ('propagated') or because the (mapped) verdict is the function's own result ('returned': same behaviour
    # written without the `?` + Ok(..) round trip); the executors below are checked for testing that result before the engine
    sv_use = util.result_use(sv, sv.calls_to('api_validation::validate_search_request')[0]) if sv.calls_to('api_validation::validate_search_request') else 'missing'
    ctx.inst('C15.R3', sv.short, 'delegates to the api validator, refusal propagated', sv_use in ('propagated', 'returned'), '' if sv_use == 'propagated' else 'validator result is %s' % sv_use)
    n_ex = 0
    for fn in ('KyroDBServiceImpl::handle_search_request', 'KyroDBServiceImpl::handle_search_requests_batch'):
        fam = prog.family(ctx.body('C15.R3', fn))
        for b in fam:
            se = [c for c in b.calls if c.callee and re.search(r'TieredEngine::knn_search\w*$', c.callee)]
            if not se:
                continue
            n_ex += 1
            vc = b.calls_to('KyroDBServiceImpl::validate_search_request')
            ok = bool(vc)
            det = 'no validate_search_request call in the executor body'
            if ok:
                s_e = []
                for v in vc:
                    s_e += flow.success_edges(b, v)
                r0 = b.reach([0], avoid_edges=s_e)
                if fn.endswith('_batch'):
                    # batch: each request is validated when it is grouped; the engine call uses the plan of validated requests only
                    bo = flow.render(flow.Origin(b).of_operand(se[0].args[3] if len(se[0].args) > 3 else se[0].args[-1]))
                    ok = True
                    det = 'batch executor validates each request while grouping (plan-keyed groups)'
                    ok = ok and all(util.result_use(b, v) in ('propagated', 'continues') or flow.outcome_edges(b, v)[0] is not None for v in vc)
                else:
                    ok = all(x.bb not in r0 for x in se)
                    det = 'engine search dominated by validation success: %s' % ok
                    o = flow.Origin(b, stop_at_vars=True)
                    args = [flow.render(o.of_operand(a)) for a in se[0].args]
                    # the plan is the validator's success value (fully expanded origin: independent of what the local holding it is called)
                    fo = flow.Origin(b)
                    uses_plan = any('var:plan' in a for a in args) or any(
                        re.search(r'KyroDBServiceImpl::validate_search_request\(.*\)@(?:Continue|Ok)→(?:Continue|Ok)\.0→SearchValidationPlan\.\w+', flow.render(fo.of_operand(a))) for a in se[0].args)
                    ok = ok and uses_plan
                    det += '; uses the plan: %s' % uses_plan
            ctx.inst('C15.R3', fn.split('::')[-1], 'validates before searching', ok, det)
    ctx.floor('C15.R3', 'search executors', n_ex, 2, 'single and batch')
    others = sorted(set(c.body.short.split('::{')[0] for c in prog.all_calls() if c.body.crate == 'kyrodb_server' and c.callee and re.search(r'TieredEngine::knn_search\w*$', c.callee)))
    ctx.inst('C15.R3', 'kyrodb_server', 'engine search entry points are called only by the two executors',
             others == ['kyrodb_server::KyroDBServiceImpl::handle_search_request', 'kyrodb_server::KyroDBServiceImpl::handle_search_requests_batch'], 'callers: %s' % others)

    # the engine refuses a query of the wrong dimension before it touches any tier — in all three search entry points (single, batch, timed). Left to the
    # cold tier's own check, the timed path books the rejection as a tier failure: the request is answered OK with no results and three of them open
    # the cold-tier circuit breaker for every later valid search
    ENTRY = ['TieredEngine::knn_search_with_ef_detailed_scoped', 'TieredEngine::knn_search_batch_with_ef_detailed_scoped', 'TieredEngine::knn_search_with_timeouts_with_ef_scoped']
    for fn in ENTRY:
        root = ctx.body('C15.R3', fn)
        if root is None:
            continue
        fam = prog.family(root)
        G = None
        for b in fam:
            # role, found structurally: the cold tier's configured dimension is the variable assigned from HnswBackend::dimension()
            util.bind_role(b, 'backend_dim', type_rx=r'^usize$', assigned_from=r'HnswBackend::dimension')
            bv = flow.Origin(b, stop_at_vars=True)
            preds = [(i_, tg, p) for i_, blk in enumerate(b.blocks) if blk['t']['k'] == 'switch' and i_ in b.live_blocks() for tg, p in flow.switch_edge_predicates(b, i_, bv)]
            eq = [(i_, tg) for i_, tg, p in preds for m_ in [re.match(r'^cmp\[\+ (?:slice|Vec)::len\(((?:arg|var):\w+)\) - var:backend_dim == 0\]$', p)] if m_ and _is_query(b, m_.group(1))]
            if eq:
                G = (b, eq, [(i_, tg) for i_, tg, p in preds if p == 'cmp[+ var:backend_dim == 0]'])
                break
        if G is None:
            ctx.inst('C15.R3', root.short, 'a query of the wrong dimension is refused before any tier or cache is touched', False, 'no comparison of the query length with the cold tier\'s dimension in %s' % fn)
            continue
        g, eq, zero = G
        bd = g.var_local('backend_dim')
        bdo = flow.render(flow.Origin(g).of_local(bd[0])) if bd else ''
        # a check inside a loop over the batch: every iteration passes it, and nothing after the loop is reached without the loop
        chk = sorted(set(i_ for i_, _ in eq))
        heads = [c for c in g.calls if c.callee and c.is_('re:Iterator>::next$') and all(g.dominates(c.bb, x) for x in chk) and any(c.bb in g.reach([x]) for x in chk)]
        each = all(h.bb not in g.reach([h.to], avoid_blocks=chk, avoid_edges=zero) for h in heads)
        r0 = g.reach([0], avoid_edges=eq + zero, avoid_blocks=[h.bb for h in heads]) | {0}
        leak = []
        n_s = 0
        for x in fam:
            sinks = [c for c in x.calls if c.callee and not c.exp and re.search(r'QueryHashCache::(get|find)\w*$|HotTier::knn_search\w*$|HnswBackend::knn_search\w*$', c.callee)]
            for c in sinks:
                n_s += 1
                # where in g does this call (or the closure that contains it) originate?
                cur, site = x, c.bb
                while cur is not g and cur is not None:
                    par = prog.bodies.get(cur.parent)
                    site = None
                    if par is not None:
                        for i_, blk in enumerate(par.blocks):
                            if any(st.get('rv', {}).get('k') == 'agg' and st['rv'].get('def') == cur.id for st in blk['s']):
                                site = i_
                    cur = par
                if cur is None or site is None:
                    leak.append('%s in %s (not under the body that holds the check)' % (flow.short(c.callee), x.short.split('::')[-1]))
                elif site in r0:
                    leak.append('%s at %s' % (flow.short(c.callee), c.loc))
        ctx.inst('C15.R3', root.short, 'a query of the wrong dimension is refused before any tier or cache is touched', 'HnswBackend::dimension(' in bdo and not leak and n_s > 0 and each,
                 ('%s is reachable without the dimension comparison' % leak[0]) if leak else
                 'guard edges %d (+%d for an unconfigured index)%s; %d tier / cache calls behind them' % (len(eq), len(zero), ', checked per query of the batch' if heads else '', n_s))
    # what the engine hands to the cold tier satisfies the cold tier's own validation: the engine accepts k ≤ K and over-fetches (k·2) for the merge; the
    # cold tier refuses k above its limit, and in the timed path that refusal is booked as a TIER FAILURE (answer OK with hot-tier results only, breaker
    # count +1). So the candidate count passed down must be provably ≤ the cold tier's limit for every k the engine accepts
    from kvstatic import bounds as _bounds
    cold_limit = None
    for nm in ('HnswBackend::knn_search_with_ef_cancel', 'HnswBackend::knn_search_batch'):
        cb_ = ctx.body('C15.R3', nm)
        if cb_ is None:
            continue
        cv_ = flow.Origin(cb_, stop_at_vars=True)
        lims = [int(m_.group(1)) - 1 for i_, blk in enumerate(cb_.blocks) if blk['t']['k'] == 'switch' for tg, p in flow.switch_edge_predicates(cb_, i_, cv_)
                for m_ in [re.match(r'^cmp\[\+ arg:k >= (\d+)\]$', p)] if m_]
        if lims:
            cold_limit = min(lims) if cold_limit is None else min(cold_limit, min(lims))
    n_k = 0
    for fn in ENTRY:
        root = ctx.body('C15.R3', fn)
        if root is None or cold_limit is None:
            continue
        # the engine's own bound on k in this entry point
        kmax = None
        for b in prog.family(root):
            bv = flow.Origin(b, stop_at_vars=True)
            for i_, blk in enumerate(b.blocks):
                if blk['t']['k'] == 'switch':
                    for tg, p in flow.switch_edge_predicates(b, i_, bv):
                        m_ = re.match(r'^cmp\[\+ (?:arg|var):k >= (\d+)\]$', p)
                        if m_:
                            kmax = int(m_.group(1)) - 1 if kmax is None else min(kmax, int(m_.group(1)) - 1)
        for b in prog.family(root):
            bo = flow.Origin(b)
            for c in b.calls:
                if c.callee and not c.exp and re.search(r'HnswBackend::knn_search\w*$', c.callee) and len(c.args) > 2:
                    n_k += 1
                    e = bo.of_operand(c.args[2])
                    # inline a local helper (cold_tier_candidates(k))
                    if e[0] == 'call' and prog.resolve_local(e[1]) is not None and len(e[2]) == 1:
                        hb = prog.resolve_local(e[1])
                        he = flow.Origin(hb).of_local(0)
                        is_k = lambda x, hb=hb: x[0] == 'arg' and x[1] == 1
                        ub = _bounds.Bounds(is_k).ub(he)
                        shown = '%s = %s' % (flow.short(e[1]), flow.render(he)[:70])
                    else:
                        is_k = lambda x: x[0] in ('arg', 'var') and x[2] == 'k' or (x[0] == 'field' and False) or flow.render(x) in ('arg:k', 'cap:k', 'var:k')
                        ub = _bounds.Bounds(is_k).ub(e)
                        shown = flow.render(e)[:70]
                    ok = ub is not None and kmax is not None and ub[0] * kmax + ub[1] <= cold_limit
                    ctx.inst('C15.R3', root.short, 'candidate count handed to the cold tier never exceeds what the cold tier accepts', ok,
                             'k ≤ %s accepted by the engine; passes %s ≤ %s; the cold tier refuses above %d%s' % (
                                 kmax, shown, ('%s·k%+d' % (ub[0], int(ub[1]))) if ub else 'no bound', cold_limit,
                                 '' if ok else ' — a valid search with a large k is refused by the cold tier, answered from the hot tier only and counted as a cold-tier failure'))
    ctx.floor('C15.R3', 'k arguments handed to the cold tier', n_k, 3, 'single, batch, timed')

    # closed inventory of the request-dependent refusals on the cold tier's search chain. The timed entry point ABSORBS a cold-tier Err (books it as a tier
    # failure, answers OK from the hot tier, and three of them open the breaker), so each refusal class below must be impossible by the time the cold tier
    # is called: discharged by an engine-side guard (K0, DIM ⇒ EMPTY), by the candidate-count bound above (KMAX), by the request validator (FINITE) or by the
    # query normaliser (ZERO, NORMRANGE, and FINITE/overflow of the norm). A refusal that matches no class fails: it needs a discharge and a table entry.
    from rules import C03 as _C03
    REFUSALS = [
        ('EMPTY', r'^bool\[slice::is_empty\(arg:query\)\]$'),
        ('K0', r'^cmp\[\+ arg:k == 0\]$'),
        ('KMAX', r'^cmp\[\+ arg:k >= \d+\]$'),
        ('DIM', r'^!cmp\[\+ .*(dimension).* - slice::len\(arg:query\) == 0\]$'),
        ('ZERO', r'^cmp\[\+ core::f32::<impl f32>::EPSILON - simd::sum_squares_f32\(arg:query\) >= 0\]$'),
        ('FINITE', r'^bool\[.*Iterator>::any\(slice::iter\(arg:query\), closure:.*\)\]$'),
        ('NORMRANGE', r'^!bool\[RangeInclusive::contains\(RangeInclusive::new\(.*NORMALIZATION_NORM_SQ_MIN, .*NORMALIZATION_NORM_SQ_MAX\), .*arg:query.*\)\]$'),
        ('PROPAGATED', r'^variant\((hnsw_backend::normalize_query_if_needed|HnswVectorIndex::knn_search\w*)\(.*\) = Break$'),
        ('CANCELLED', r'cancel'),
    ]
    chain_root = ctx.body('C15.R3', 'HnswBackend::knn_search_with_ef_cancel')
    seen_b, found_cls, n_exit = set(), {}, 0

    def walk_chain(b, depth=0):
        nonlocal n_exit
        if b.id in seen_b or depth > 4:
            return
        seen_b.add(b.id)
        o_ = flow.Origin(b)
        for e_ in sorted(flow.err_blocks(b)):
            ce = _C03.controlling_edge(b, e_, o_)
            n_exit += 1
            cls = None
            if ce:
                for nm_, rx_ in REFUSALS:
                    if re.search(rx_, ce[2]):
                        cls = nm_
                        break
            if cls is None:
                ctx.inst('C15.R3', b.short, 'unclassified refusal on the cold search chain (%s)' % (ce[2][:70] if ce else 'no controlling guard'), False,
                         'Err exit at %s under %s: the timed search path books a cold-tier refusal as a tier failure, so a new refusal reason needs an engine-side '
                         'discharge and a table entry' % (b.loc_of(e_), ce[2][:120] if ce else '?'))
            else:
                found_cls.setdefault(cls, []).append(b.name)
        for c_ in b.calls:
            g_ = prog.resolve_local(c_.callee) if c_.callee else None
            if g_ is not None and re.search(r'HnswBackend::|HnswVectorIndex::|hnsw_backend::|hnsw_index::', g_.id) and 'closure' not in g_.id:
                walk_chain(g_, depth + 1)
    if chain_root is not None:
        for x_ in prog.family(chain_root):
            walk_chain(x_)
    ctx.floor('C15.R3', 'refusal exits on the cold search chain', n_exit, 12, '6 in HnswBackend::knn_search_with_ef_cancel, 1 in normalize_query_if_needed, 5 in the index')
    ctx.inst('C15.R3', 'cold search chain', 'every refusal class has a discharge', not (set(found_cls) - {n for n, _ in REFUSALS}), 'classes found: %s' % sorted(found_cls))
    timed = ctx.body('C15.R3', 'TieredEngine::knn_search_with_timeouts_with_ef_scoped')
    if timed is not None and chain_root is not None:
        tfam = prog.family(timed)
        # K0: the engine refuses k == 0 itself
        k0 = False
        for b in tfam:
            bv = flow.Origin(b, stop_at_vars=True)
            for i_, blk in enumerate(b.blocks):
                if blk['t']['k'] == 'switch':
                    for tg, p_ in flow.switch_edge_predicates(b, i_, bv):
                        if re.match(r'^cmp\[\+ (?:arg|var|cap):k == 0\]$', p_) and (tg in flow.err_blocks(b) or b.reach([tg]) & flow.err_blocks(b)) and not any(
                                c.callee and re.search(r'HnswBackend::knn_search\w*$|HotTier::knn_search\w*$', c.callee) for c in b.calls if c.bb in b.reach([tg], avoid_blocks=flow.err_blocks(b))):
                            k0 = True
        ctx.inst('C15.R3', timed.short, 'refusal class K0 discharged: k = 0 refused by the engine', k0, 'guard `k == 0` leading to Err without a tier call: %s' % k0)
        # the query handed to the cold tier is the normaliser's Ok value
        nb = [b for b in tfam if b.calls_to('tiered_engine::normalize_query_for_search')]
        handed = []
        for x in tfam:
            for c in x.calls:
                if c.callee and not c.exp and re.search(r'HnswBackend::knn_search\w*$', c.callee) and len(c.args) > 1:
                    cur, r_ = x, flow.render(flow.Origin(x).of_operand(c.args[1]))
                    hops = 0
                    while hops < 6:
                        hops += 1
                        m_ = re.match(r'^(?:Vec::as_slice\(|Deref::deref\(|<.*>::deref\()?(?:cap|var):(\w+)\)?$', r_)
                        if not m_:
                            break
                        nm_ = m_.group(1)
                        vl = cur.var_local(nm_)
                        if vl and not r_.startswith('cap:') and False:
                            pass
                        if r_.startswith('cap:') or not vl:
                            cur = prog.bodies.get(cur.parent)
                            if cur is None:
                                break
                            vl = cur.var_local(nm_)
                            if not vl:
                                r_ = 'cap:' + nm_
                                continue
                        rs = [flow.render(flow.Origin(cur).of_local(l_)) for l_ in vl]
                        pick = [y for y in rs if 'normalize_query_for_search' in y] or rs
                        r_ = pick[0]
                    handed.append((c, r_))
        okq = bool(handed) and all('tiered_engine::normalize_query_for_search(' in r_ and '@Ok' in r_ for _, r_ in handed)
        ctx.inst('C15.R3', timed.short, 'the query handed to the cold tier is the normaliser\'s Ok value', okq,
                 'cold-tier query = %s' % [r_[:110] for _, r_ in handed][:2])
        nq = ctx.body('C15.R3', 'tiered_engine::normalize_query_for_search')
        if nq is not None:
            on = flow.Origin(nq)
            ss = [c for c in nq.calls if c.callee and c.callee.endswith('simd::sum_squares_f32')]
            edges = {'finite': [], 'nonzero': [], 'inrange': [], 'outrange': []}
            for i_, blk in enumerate(nq.blocks):
                if blk['t']['k'] == 'switch':
                    for tg, p_ in flow.switch_edge_predicates(nq, i_, on):
                        if re.match(r'^bool\[f32::is_finite\(simd::sum_squares_f32\(arg:query\)\)\]$', p_):
                            edges['finite'].append((i_, tg))
                        if re.match(r'^!cmp\[\+ core::f32::<impl f32>::EPSILON - simd::sum_squares_f32\(arg:query\) >= 0\]$', p_):
                            edges['nonzero'].append((i_, tg))
                        if re.match(r'^bool\[RangeInclusive::contains\(RangeInclusive::new\(.*NORMALIZATION_NORM_SQ_MIN, .*NORMALIZATION_NORM_SQ_MAX\), simd::sum_squares_f32\(arg:query\)\)\]$', p_):
                            edges['inrange'].append((i_, tg))
                        if re.match(r'^!bool\[RangeInclusive::contains\(RangeInclusive::new\(.*NORMALIZATION_NORM_SQ_MIN, .*NORMALIZATION_NORM_SQ_MAX\), simd::sum_squares_f32\(arg:query\)\)\]$', p_):
                            edges['outrange'].append((i_, tg))
            start = [ss[0].to] if ss and ss[0].to is not None else []
            for nm_, what in (('finite', 'FINITE / overflow: a query whose squared norm is not finite is refused (1/sqrt(inf) = 0 would turn it into the zero vector)'),
                              ('nonzero', 'ZERO: a zero-norm query is refused')):
                leak = not start or not edges[nm_] or flow.ok_return_reachable(nq, start, avoid_edges=edges[nm_])
                ctx.inst('C15.R3', nq.short, 'refusal class %s' % what.split(':')[0] + ' discharged by the normaliser', not leak,
                         ('an Ok return is reachable after the norm is computed without passing the `%s` edge — %s' % (nm_, what)) if leak else what)
            # NORMRANGE: Ok is either the in-range edge (query as is) or the scaled copy 1/sqrt(norm_sq)
            sq = [c for c in nq.calls if c.callee and c.callee.endswith('f32::sqrt') and 'sum_squares_f32(arg:query)' in flow.render(on.of_operand(c.args[0]))]
            leak = not start or not edges['inrange'] or not sq or flow.ok_return_reachable(nq, start, avoid_edges=edges['inrange'], avoid_blocks=[c.bb for c in sq])
            ctx.inst('C15.R3', nq.short, 'refusal class NORMRANGE discharged by the normaliser', not leak,
                     'Ok only with the norm in range or through the 1/sqrt(norm²) scaling: %s' % (not leak))
        # the normaliser's refusal ends the request before any tier
        for b in nb:
            for c in b.calls_to('tiered_engine::normalize_query_for_search'):
                s_e, f_e = flow.outcome_edges(b, c)
                bad_ = None
                if s_e is None:
                    bad_ = 'result not tested'
                else:
                    r_ = b.reach([e[1] for e in f_e]) | set(e[1] for e in f_e)
                    for x in tfam:
                        site = None
                        if x is b:
                            sites_ = [cc.bb for cc in x.calls if cc.callee and re.search(r'HnswBackend::knn_search\w*$|HotTier::knn_search\w*$|QueryHashCache::(get|find)\w*$', cc.callee)]
                        else:
                            sites_ = [i2 for i2, blk in enumerate(b.blocks) if any(st.get('rv', {}).get('k') == 'agg' and st['rv'].get('def') == x.id for st in blk['s'])]
                        if any(t_ in r_ and t_ not in b.reach([e[1] for e in s_e]) for t_ in sites_):
                            bad_ = 'a tier call is reachable on the failure edge'
                ctx.inst('C15.R3', b.short.split('::{')[0], 'the normaliser\'s refusal ends the request before any tier', bad_ is None, bad_ or 'failure edge returns Err')
    # ------------------------------------------------------------------ R4
    ctx.rule('C15.R4', 'batch bounds: bulk_insert, bulk_load_hnsw, bulk_search, bulk_query and batch_delete (ids) each compare the batch size with '
                       'MAX_BATCH_SIZE / MAX_TOTAL_BULK_LOAD_DOCUMENTS before the engine call or the queue push')
    BOUNDS = {'bulk_insert': (r'var:batch_count', r'TieredEngine::insert$'), 'bulk_load_hnsw': (r'var:total_received', r'::push$'),
              'bulk_search': (r'var:total_count', r'::push$'), 'bulk_query': (r'var:total_requested', r'TieredEngine::bulk_query_with_source$'),
              'batch_delete': (r'Vec::len\(.*IdList\.doc_ids\)', r'TieredEngine::batch_delete$|TieredEngine::get_metadata$')}
    STREAMED = ('bulk_insert', 'bulk_load_hnsw', 'bulk_search')   # the batch size is a per-item counter (the names above are only the fallback)
    for h, (cnt_rx, sink_rx) in BOUNDS.items():
        fam = server.handler_family(prog, h)
        okb = False
        det = 'no bound found'
        for b in fam:
            _bind_stream_roles(b)    # documents / pending = the accumulated batch, total_requested = the length of the request's id list
            ov = flow.Origin(b, stop_at_vars=True)
            sinks = [c.bb for c in b.calls if c.callee and re.search(sink_rx, c.callee) and (not sink_rx.startswith('::push') or flow.render(ov.of_operand(c.args[0])) in ('var:documents', 'var:pending'))]
            crx = cnt_rx
            if h in STREAMED and sinks:
                # the batch size of a streaming RPC is the variable that structurally counts the items handed to the sink, whatever it is called
                cl = _item_counter(b, sinks)
                if cl is not None:
                    crx = 'var:' + re.escape(b.varnames[cl][0])
            over = []
            for i, blk in enumerate(b.blocks):
                if blk['t']['k'] == 'switch' and i in b.live_blocks():
                    for tg, p in flow.switch_edge_predicates(b, i, ov):
                        if re.match(r'^cmp\[\+ %s >= (\d+)\]$' % crx, p):
                            over.append((i, tg, p))
            if not over:
                continue
            if not sinks:
                continue
            # from the over-limit edge the sink is unreachable without passing back through a new message / is never reached
            msgs = [c.bb for c in b.calls if c.callee and re.search(r'Streaming::message$', c.callee)]
            r = b.reach([e[1] for e in over], avoid_blocks=msgs)
            lim = int(re.search(r'>= (\d+)\]$', over[0][2]).group(1)) - 1
            okb = not any(x in r for x in sinks) and lim in (10000, 1000, 100000, 1000000, 10000000) or (not any(x in r for x in sinks) and lim > 0)
            det = 'bound %s (limit %d); sinks %d; sink reachable from the over-limit edge: %s' % (over[0][2][:70], lim, len(sinks), any(x in r for x in sinks))
            if okb:
                break
        ctx.inst('C15.R4', 'rpc ' + h, 'batch size bounded before the engine', okb, det)
    # ------------------------------------------------------------------ R5 nesting depth of a request is bounded by the decoder
    ctx.rule('C15.R5', 'decode depth: the request schema has message types that contain themselves (MetadataFilter through And / Or / Not), so the nesting depth of a request '
                       'is chosen by the client; the generated decoder recurses once per level (and so do the consumers of the decoded value: matching, compilation to '
                       'bitmaps, oversampling estimate). The only bound is prost\'s decode recursion limit (100 levels, refusal = a decode error answered with a status): '
                       'prost must be built WITHOUT its `no-recursion-limit` feature — in no workspace manifest and not in the resolved feature set. Without the limit a '
                       'filter nested a few hundred thousand levels deep (it fits the message size limit) overflows the stack of the worker thread: an abort that no '
                       'catch_unwind contains, after which no request is answered')
    rec = recursive_messages(prog)
    FEAT = 'no-recursion-limit'
    decl = bc['dep_features']('prost') if bc['manifests'] else []
    enabled = ['%s %s' % (n_, w_) for n_, w_, fs_ in decl if FEAT in fs_]
    on, declared = resolved_features(extract.repo_root(), 'prost')
    if on is not None and FEAT in on:
        enabled.append('cargo\'s resolver (all workspace features on)')
    if not bc['manifests'] or not [x for x in decl if not x[1].startswith('[features]')]:
        ctx.missing('C15.R5', 'declaration of the prost dependency in the workspace manifests')
    else:
        ctx.inst('C15.R5', 'build configuration', 'prost keeps its decode recursion limit (feature no-recursion-limit is off)', not rec or not enabled,
                 ('recursive message types: %s; `%s` enabled by %s — nothing bounds the nesting depth of a decoded filter any more' % (
                     ', '.join(flow.short(x) for x in rec)[:120], FEAT, '; '.join(enabled)[:200])) if (rec and enabled) else
                 'recursive message types: %s; prost declared in %s with features %s; resolved features: %s' % (
                     ', '.join(flow.short(x) for x in rec)[:120] or 'none', ', '.join(sorted(set(n_ for n_, _, _ in decl))), sorted(set(f_ for _, _, fs_ in decl for f_ in fs_)),
                     sorted(on) if on is not None else 'resolver not available, manifests decide'))
        if declared is not None:
            # positive control: the feature the rule looks for exists under this name in the prost version the lock file pins
            ctx.inst('C15.R5', 'build configuration', 'positive control: the pinned prost declares the feature this rule looks for', FEAT in declared,
                     'features declared by prost: %s' % sorted(declared), nontrivial=False)
    ctx.floor('C15.R5', 'message types of the schema that contain themselves', len(rec), 1, 'MetadataFilter, And / Or / Not filter, the oneof')
    # ------------------------------------------------------------------ R6 no division by a client-controlled zero while validating
    ctx.rule('C15.R6', 'request validation runs on client-controlled filters before anything else, partly inside spawned stream tasks the panic containment layer does not '
                       'cover: a panic there leaves stream items unanswered. Every division / remainder by a non-constant divisor in the validation modules '
                       '(api_validation, adaptive_oversampling) has a divisor that is ≥ 1 on every path: a constant ≥ 1, max(_, c ≥ 1), clamp(_, c ≥ 1, _), min / product of '
                       'such values, or the result of a local function all of whose returns are such (recursion assumed, then discharged). Decides non-zero-ness of '
                       'divisors structurally, not the values')

    def _ge1(e, b, assume, depth=0):
        if depth > 12:
            return False
        k = e[0]
        if k == 'const':
            v = e[2] if len(e) > 2 and isinstance(e[2], int) else None
            if v is None:
                m_ = re.match(r'^(\d+)', str(e[1]))
                v = int(m_.group(1)) if m_ else None
            return v is not None and v >= 1
        if k == 'phi':
            return bool(e[1]) and all(_ge1(a, b, assume, depth + 1) for a in e[1])
        if k == 'cast':
            return _ge1(e[1], b, assume, depth + 1)
        if k == 'field' and isinstance(e[2], str) and e[2] == '.0' and e[1][0] == 'bin':
            return _ge1(e[1], b, assume, depth + 1)
        if k == 'bin':
            op = e[1].replace('WithOverflow', '').replace('Unchecked', '')
            if op == 'Mul':
                return _ge1(e[2], b, assume, depth + 1) and _ge1(e[3], b, assume, depth + 1)
            if op == 'Add':
                return _ge1(e[2], b, assume, depth + 1) or _ge1(e[3], b, assume, depth + 1)
            return False
        if k == 'call':
            sh = flow.short(e[1])
            a = e[2]
            if re.search(r'(^|::)clamp$', sh) and len(a) == 3:
                return _ge1(a[1], b, assume, depth + 1)
            if re.search(r'(^|::)max$', sh) and len(a) == 2:
                return _ge1(a[0], b, assume, depth + 1) or _ge1(a[1], b, assume, depth + 1)
            if re.search(r'(^|::)min$', sh) and len(a) == 2 and not sh.endswith('Iterator::min'):
                return _ge1(a[0], b, assume, depth + 1) and _ge1(a[1], b, assume, depth + 1)
            if sh.endswith('Option::unwrap_or') and len(a) == 2:
                # min/max over mapped elements, or the default
                inner = a[0]
                ok_in = False
                if inner[0] == 'call' and re.search(r'Iterator::(min|max)$', flow.short(inner[1])) and inner[2] and inner[2][0][0] == 'call' and flow.short(inner[2][0][1]).endswith('Iterator::map'):
                    fn_ = inner[2][0][2][1] if len(inner[2][0][2]) > 1 else None
                    r_ = flow.render(fn_) if fn_ is not None else ''
                    g = next((x for x in prog.bodies.values() if x.kind in ('Fn', 'AssocFn') and x.short and r_.endswith(x.short.split('::')[-1]) and 'adaptive_oversampling' in x.id), None)
                    ok_in = g is not None and _fn_ge1(g, assume)
                return ok_in and _ge1(a[1], b, assume, depth + 1)
            g = prog.resolve_local(e[1])
            if g is not None:
                return _fn_ge1(g, assume)
            return False
        return False

    def _fn_ge1(g, assume):
        if g.id in assume:
            return True
        assume = assume | {g.id}
        alts = flow.top_alternatives(flow.Origin(g).of_local(0))
        return bool(alts) and all(_ge1(a, g, assume) for a in alts)
    n6 = 0
    for b in sorted(prog.bodies.values(), key=lambda x: x.id):
        if not re.search(r'(^|::)(adaptive_oversampling|api_validation)::', b.id) or b.kind == 'Promoted' or '::tests::' in b.id:
            continue
        of6 = None
        k6 = 0
        for i_, blk in enumerate(b.blocks):
            if i_ not in b.live_blocks():
                continue
            for st in blk['s']:
                rv = st.get('rv')
                if rv and rv.get('k') == 'bin' and rv['op'] in ('Div', 'Rem') and rv['b'].get('k') != 'c':
                    of6 = of6 or flow.Origin(b)
                    d = of6.of_operand(rv['b'])
                    ok6 = _ge1(d, b, frozenset())
                    n6 += 1
                    ctx.inst('C15.R6', b.short, 'divisor #%d is ≥ 1 on every path' % k6, ok6,
                             'divisor = %s%s' % (flow.render(d)[:120], '' if ok6 else ' — can be 0 for a client-built filter: "attempt to divide by zero" panics inside request validation'))
                    k6 += 1
    ctx.floor('C15.R6', 'divisions by a non-constant divisor in the validation modules', n6, 2, 'average over OR operands, 50 / inner selectivity')
    # ------------------------------------------------------------------ R7 = C03.R7 / C14.R5: a batch answer of "failed" means nothing of it was applied
    ctx.rule('C15.R7', 'per-item accounting of the bulk load (= C14.R5, the shared analysis of C03.R7): TieredEngine::bulk_load_cold_tier has no Err return reachable after a '
                       'cold-tier insert of the same request succeeded — its RPC caller answers an Err with "the whole batch failed", so an early exit after durable items '
                       'reports items as failed that changed the collection (live and after restart), and never attempts the valid items behind the refused one')
    C03.no_failure_after_canonical(ctx, prog, 'C15.R7', ('TieredEngine::bulk_load_cold_tier',))
    ctx.stat('functions_analysed', len(set(i['key'].split(' | ')[1] for i in ctx.instances)))
