"""C16 — approximate search keeps a recall floor and is deterministic.

The recall floor (a mean over seeded datasets of numeric outputs of a graph heuristic) is NOT decided: no shape of the code is a
necessary condition for "≥ 0.80".  Decided are structural clauses without which the behaviour cannot hold:
  R1  determinism sources: from the index search entry points no random-number source, clock, hash-iteration order or thread identity
      is reachable (a repeated search on an unchanged collection then cannot differ);
  R2  the thread-local search scratch carries nothing from one search into the next: every mark records the id it marks, prepare()
      clears every recorded mark (and both heaps, C17.R1) before the first mark of a search; closed inventory: EVERY field of the
      scratch is reset by prepare() on every path and prepare() precedes every other access to the scratch;
  R3  the beam is never narrower than the answer: the width given to the exact layer-0 search is ≥ min(k, number of nodes) and the
      oversampled candidate count of the tombstone filter is ≥ k for every validated k (≤ 10 000);
  R4  the pruning bound of every beam search is refreshed after every change of the result heap;
  R5  graph construction: a reverse edge is dropped without touching the neighbour's list only for invalid arguments or an existing
      edge (closed table), and every rewrite of a list was offered the incoming node — otherwise late nodes get no incoming edges.
"""
import re

from kvstatic import flow, util
from kvstatic.callgraph import reachable_bodies

MANIFEST = {
    'text': 'Decides necessary conditions, not the recall statistic: (R1) no random-number source, clock, hash-iteration order or thread '
            'identity is reachable from the index search entry points (HnswBackend::knn_search*, HnswVectorIndex::knn_search*, FlatGraph::search), '
            'so a repeated search on an unchanged collection cannot differ; (R2) the thread-local search scratch carries nothing from one search '
            'into the next (every mark is recorded, prepare() clears every recorded mark before the first mark, every field of the scratch is reset by prepare()); (R3) the beam given to the exact '
            'layer-0 search is ≥ min(k, node count) and the oversampled k of the tombstone filter is ≥ k for every validated k; (R5) the reverse-edge merge of the '
            'graph construction refuses a newcomer without touching the list only for invalid arguments or an existing edge. The recall floor '
            '(≥ 0.80 mean recall, ≤ 0.10 drop across build routes) is a statistic of numeric outputs and is NOT decided.',
    'design_ref': 'DESIGN.md §4.16 (revised in §9.6)',
    'note': 'A clock read for metrics inside the search path would need a named exception; today there is none.',
    'technique': 'call-graph reachability (who-may-call) + pairing / dominance + symbolic lower bounds on MIR',
}

EXPLANATION = 'WMC / pairing / bound rules over ann_backend.rs, hnsw_index.rs and hnsw_backend.rs; the recall statistic is out of reach.'

NONDET = r'(^|::)rand::|rand_core::|rand_chacha::|fastrand::|getrandom::|Instant::now$|SystemTime::now$|RandomState::new$|thread::current$|ThreadId|::thread_rng$|DefaultHasher::new$|' \
         r'HashMap<.*>::(iter|keys|values|drain|into_iter)$|HashMap::(iter|keys|values|drain|into_iter)$|HashSet<.*>::(iter|drain|into_iter)$|HashSet::(iter|drain|into_iter)$|hash::map::\w+ as .*IntoIterator>::into_iter$'


def ge_k(e, body):
    """e ≥ min(k, n) for every validated k (1 ≤ k ≤ 10 000) and node count n — a small symbolic evaluation over max / min / clamp / +."""
    t = e[0]
    if t == 'cast':
        return ge_k(e[1], body)
    if t == 'arg' and e[2] == 'k':
        return True
    if t == 'const' and e[2] is not None:
        return e[2] >= 10000
    if t == 'phi':
        return all(ge_k(a, body) for a in e[1])
    if t == 'call':
        sh = flow.short(e[1])
        a = e[2]
        if sh == 'FlatGraph::len' or sh.endswith('::len'):
            return True      # ≥ n ≥ min(k, n)
        if sh.endswith('::max') and len(a) == 2:
            return ge_k(a[0], body) or ge_k(a[1], body)
        if sh.endswith('::min') and len(a) == 2:
            return ge_k(a[0], body) and ge_k(a[1], body)
        if sh.endswith('::clamp') and len(a) == 3:
            return ge_k(a[1], body) and ge_k(a[2], body)
        if sh.endswith('saturating_add') and len(a) == 2:
            return ge_k(a[0], body) or ge_k(a[1], body)
        return False
    return False


def scratch_resets(prog, body, adt, depth=2):
    """{field: how} — the fields of the struct `adt` that the `&mut self` method `body` resets on EVERY path to its return:
         assigned                (*self).f = ..                                         in a block that dominates every return
         cleared / drained       clear(&mut self.f) / drain(&mut self.f, ..) / take     in a block that dominates every return
         cleared bit by bit      words of self.f looked up by ids drained (in full) from another field and and-ed with a mask
         through a callee        a method of the same struct called on self in a block that dominates every return does one of the above"""
    rets = [x for x in body.return_blocks() if x in body.live_blocks()]
    if not rets:
        return {}

    def always(bb):
        return all(body.dominates(bb, r) for r in rets)
    of = flow.Origin(body)
    out = {}
    fld = re.compile(r'^arg:\w+→%s\.(\w+)$' % re.escape(adt))
    drained = set()
    for i, blk in enumerate(body.blocks):
        if i not in body.live_blocks():
            continue
        for st in blk['s']:
            if 'rv' not in st:
                continue
            pr_ = st['pl'].get('p') or []
            if st['pl']['l'] == 1 and len(pr_) == 2 and pr_[0] == '*' and isinstance(pr_[1], str) and ('%s.' % adt) in pr_[1] and always(i):
                out.setdefault(pr_[1].rsplit('.', 1)[-1], 'assigned at %s' % body.loc_of(i))
    for c in body.calls:
        if not c.callee or not c.args or c.bb not in body.live_blocks():
            continue
        sh = flow.short(c.callee)
        m_ = fld.match(flow.render(of.of_operand(c.args[0])))
        if m_ and always(c.bb) and re.search(r'::(clear|drain|take)$', sh):
            if sh.endswith('::drain'):
                if len(c.args) < 2 or 'RangeFull' not in flow.render(of.of_operand(c.args[1])):
                    continue
                drained.add(m_.group(1))
            out.setdefault(m_.group(1), '%s at %s' % (sh, c.loc))
        callee = prog.resolve_local(c.callee)
        a0 = of.of_operand(c.args[0])
        if callee is not None and depth > 0 and callee is not body and ('::%s::' % adt) in callee.id and a0[0] == 'arg' and a0[1] == 1 and always(c.bb):
            for f_, how in scratch_resets(prog, callee, adt, depth - 1).items():
                out.setdefault(f_, '%s (in %s, called at %s)' % (how, flow.short(callee.id), c.loc))
    # the bitset: every id recorded in a fully drained field selects a word of this field, which is and-ed with a mask
    masks = [i for i, blk in enumerate(body.blocks) for st in blk['s'] if 'rv' in st and st['rv'].get('k') == 'bin' and st['rv'].get('op') == 'BitAnd' and st['pl'].get('p')]
    for c in body.calls:
        if c.callee and re.search(r'::get(_unchecked)?_mut$', c.callee) and len(c.args) > 1 and masks and drained:
            m_ = fld.match(flow.render(of.of_operand(c.args[0])))
            ix = flow.render(of.of_operand(c.args[1]))
            if m_ and 'Drain' in ix and any(body.reach([c.bb]) & {x} for x in masks):
                out.setdefault(m_.group(1), 'cleared bit by bit for every id drained from %s (looked up at %s)' % ('/'.join(sorted(drained)), c.loc))
    return out


def run(ctx, prog):
    ctx.not_decided = ['mean recall ≥ 0.80 per distribution × metric × dimension × size (a statistic of numeric outputs)',
                       'recall drop ≤ 0.10 between build routes (online, bulk, delete + compaction, recovery rebuild)',
                       'equality of distances between repeated searches beyond the absence of nondeterminism sources (floating-point evaluation order is fixed by the code, not re-derived)']
    # ------------------------------------------------------------------ R1
    ctx.rule('C16.R1', 'determinism sources: no function reachable (synchronously) from the index search entry points calls a random-number source, a clock, '
                       'RandomState / hash-map iteration, or asks for the thread identity')
    roots = sorted(b.id for b in prog.bodies.values() if b.crate == 'kyrodb_engine' and re.search(
        r'hnsw_backend::HnswBackend::knn_search\w*$|ann_backend::FlatGraph::search$|hnsw_index::HnswVectorIndex::knn_search\w*$|<kyrodb_engine::ann_backend::SingleGraphBackend as kyrodb_engine::ann_backend::AnnBackend>::search_with_cancel$', b.id))
    ctx.floor('C16.R1', 'search entry points', len(roots), 8, 'HnswBackend ×4, HnswVectorIndex ×3–5, FlatGraph::search, backend trait impl')
    R = reachable_bodies(prog, roots, include_spawned=True)
    ctx.floor('C16.R1', 'functions reachable from the search entry points', len(R), 60, 'counted on the pinned tree (65)')
    hits = {}
    for bid in sorted(R):
        b = prog.bodies[bid]
        for c in b.calls:
            if c.callee and not c.exp and re.search(NONDET, c.callee):
                hits.setdefault(b.short.split('::{')[0], set()).add(flow.short(c.callee))
    for r in roots:
        rb = prog.bodies[r]
        sub = reachable_bodies(prog, [r], include_spawned=True)
        mine = {f: sorted(v) for f, v in hits.items() if any(prog.bodies[x].short.split('::{')[0] == f for x in sub)}
        ctx.inst('C16.R1', rb.short, 'reaches no nondeterminism source', not mine, ('; '.join('%s calls %s' % (f, v) for f, v in sorted(mine.items()))[:300]) if mine else '%d functions reachable' % len(sub))
    # positive control: the pattern does match where such sources are used legitimately elsewhere in the crate
    ctl = sum(1 for c in prog.all_calls() if c.callee and c.body.crate == 'kyrodb_engine' and not c.exp and re.search(NONDET, c.callee))
    ctx.floor('C16.R1', 'positive control: nondeterminism sources matched somewhere in the crate', ctl, 20, 'clocks, hash iteration and RNG are used outside the search path (metrics, caches, sampling)')

    # ------------------------------------------------------------------ R2
    ctx.rule('C16.R2', 'the search scratch is reset between searches: mark_visited and mark_if_unvisited_unchecked push the id they mark onto touched_dense_ids '
                       'on every path that sets a bit; clear_visited_bits drains touched_dense_ids and clears exactly those bits; prepare() runs '
                       'clear_visited_bits on every path; both search bodies call prepare before their first mark')
    for fn in ('FlatSearchScratch::mark_visited', 'FlatSearchScratch::mark_if_unvisited_unchecked'):
        b = ctx.body('C16.R2', fn)
        if b is None:
            continue
        of = flow.Origin(b)
        sets = [i for i, blk in enumerate(b.blocks) for st in blk['s'] if 'rv' in st and st['rv'].get('k') == 'bin' and st['rv'].get('op') == 'BitOr' and st['pl'].get('p')]
        push = [c for c in b.calls if c.callee and c.callee.endswith('Vec::push') and flow.render(of.of_operand(c.args[0])).endswith('FlatSearchScratch.touched_dense_ids')
                and flow.render(of.of_operand(c.args[1])) == 'arg:dense_id']
        rets = b.return_blocks()
        ok = bool(sets) and bool(push) and all(not any(x in (b.reach([s], avoid_blocks=[p.bb for p in push]) | ({s} - set(p.bb for p in push))) for x in rets) for s in sets)
        ctx.inst('C16.R2', b.short.replace('ann_backend::', ''), 'a set bit is always recorded in touched_dense_ids', ok, 'bit-set blocks %s; push(dense_id) blocks %s' % (sets, [p.bb for p in push]))
    cv = ctx.body('C16.R2', 'FlatSearchScratch::clear_visited_bits')
    if cv is not None:
        of = flow.Origin(cv)
        dr = [c for c in cv.calls if c.callee and c.callee.endswith('Vec::drain') and flow.render(of.of_operand(c.args[0])).endswith('FlatSearchScratch.touched_dense_ids') and 'RangeFull' in flow.render(of.of_operand(c.args[1]))]
        gm = [c for c in cv.calls if c.callee and c.callee.endswith('slice::get_mut') and 'Drain' in flow.render(of.of_operand(c.args[1])) and 'Shr 6' in flow.render(of.of_operand(c.args[1]))]
        clr = [i for i, blk in enumerate(cv.blocks) for st in blk['s'] if 'rv' in st and st['rv'].get('k') == 'bin' and st['rv'].get('op') == 'BitAnd' and st['pl'].get('p')]
        ctx.inst('C16.R2', cv.short.replace('ann_backend::', ''), 'drains every recorded id and clears its bit', len(dr) == 1 and len(gm) == 1 and bool(clr), 'drain(..): %d; word lookup by drained id: %d; bit-clear blocks %s' % (len(dr), len(gm), clr))
    pr = ctx.body('C16.R2', 'FlatSearchScratch::prepare')
    if pr is not None:
        cc = pr.calls_to('FlatSearchScratch::clear_visited_bits')
        rets = [x for x in pr.return_blocks() if x in pr.live_blocks()]
        ctx.inst('C16.R2', pr.short.replace('ann_backend::', ''), 'prepare clears the visited marks on every path', bool(cc) and all(any(pr.dominates(c.bb, r) for c in cc) for r in rets), 'clear_visited_bits calls: %d' % len(cc))
    n_marks = 0
    for b in prog.bodies.values():
        if '::ann_backend::' not in b.id or b.kind == 'Promoted' or 'FlatSearchScratch::' in b.id:
            continue
        marks = [c for c in b.calls if c.callee and re.search(r'FlatSearchScratch::(mark_visited|mark_if_unvisited_unchecked|mark_if_unvisited)$', c.callee)]
        if not marks:
            continue
        prep = [c for c in b.calls if c.callee and c.callee.endswith('FlatSearchScratch::prepare')]
        n_marks += len(marks)
        ctx.inst('C16.R2', b.short.replace('ann_backend::', '').split('::{')[0], 'prepare precedes every mark of the search', bool(prep) and all(any(b.dominates(p.bb, m.bb) for p in prep) for m in marks), '%d mark call(s), %d prepare call(s)' % (len(marks), len(prep)))
    ctx.floor('C16.R2', 'mark call sites in the search bodies', n_marks, 5, '2 + 3 on the pinned tree')
    # closed inventory of the scratch's state: the scratch is thread-local and outlives the search, so EVERY field it has is state one search can leave for the
    # next one on the same thread.  Each field must be reset by prepare() on every path (assigned, cleared / drained, or — the visited bitset — cleared bit by bit
    # through the recorded marks, instances above), and prepare() precedes every other access to the scratch in the search bodies.  A field prepare() does not
    # reset (a remembered entry point, a cached bound) makes the answer depend on which query this thread answered before: repeated searches differ
    adt = [a for p_, a in prog.adts.items() if p_.endswith('::ann_backend::FlatSearchScratch')]
    fields = [f_['name'] for f_ in adt[0]['variants'][0]['fields']] if len(adt) == 1 and adt[0].get('kind') == 'struct' else []
    if not fields:
        ctx.missing('C16.R2', 'struct ann_backend::FlatSearchScratch (field list)')
    elif pr is not None:
        resets = scratch_resets(prog, pr, 'FlatSearchScratch')
        for f_ in fields:
            ctx.inst('C16.R2', 'FlatSearchScratch', 'field %s is reset by prepare() on every path' % f_, f_ in resets,
                     resets.get(f_) or ('prepare() never resets FlatSearchScratch.%s on every path: what one search leaves there is still there when the next search on the same '
                                        'thread starts, so the result of a search depends on the queries answered before it' % f_))
        ctx.floor('C16.R2', 'fields of the thread-local search scratch', len(fields), 5, 'visited bits, recorded marks, trim flag, two heaps')
    n_acc = 0
    for root_nm in ('FlatGraph::search_layer0_exact', 'FlatGraph::search_at_layer_into'):
        rootb = ctx.body('C16.R2', root_nm)
        for b in (prog.family(rootb) if rootb is not None else []):
            prep = [c for c in b.calls if c.callee and c.callee.endswith('FlatSearchScratch::prepare')]
            if not prep:
                continue
            # every way into the scratch goes through Deref / DerefMut of the RefMut that guards it
            acc = [c for c in b.calls if c.callee and re.search(r'RefMut<.*> as .*::Deref(Mut)?>::deref(_mut)?$', c.callee) and c.args and c.args[0].get('pl') and
                   'FlatSearchScratch' in b.locals[c.args[0]['pl']['l']]]
            feeds = [c for c in acc if c.to is not None and any(p.bb == c.to for p in prep)]
            early = [c for c in acc if c not in feeds and not any(b.dominates(p.bb, c.bb) for p in prep)]
            n_acc += len(acc)
            ctx.inst('C16.R2', b.short.replace('ann_backend::', '').split('::{')[0], 'prepare precedes every other access to the scratch', bool(acc) and len(feeds) == len(prep) and not early,
                     ('the scratch is accessed at %s before prepare() has reset it' % early[0].loc) if early else '%d accesses, %d of them the receiver of prepare()' % (len(acc), len(feeds)))
    ctx.floor('C16.R2', 'accesses to the scratch in the search bodies', n_acc, 20, '19 + 32 on the pinned tree')

    # ------------------------------------------------------------------ R3
    ctx.rule('C16.R3', 'beam ≥ answer: the width passed to search_layer0_exact is ≥ min(k, node count); compute_search_k(k, ..) ≥ k for 1 ≤ k ≤ 10 000 on every '
                       'return (0 only for k = 0); both backend searches ask the index for compute_search_k candidates')
    sf = ctx.body('C16.R3', 'FlatGraph::search_fp32')
    if sf is not None:
        of = flow.Origin(sf)
        cs = sf.calls_to('FlatGraph::search_layer0_exact')
        for k_, c in enumerate(cs):
            e = of.of_operand(c.args[5])
            kk = flow.render(of.of_operand(c.args[4]))
            ctx.inst('C16.R3', sf.short.replace('ann_backend::', ''), 'layer-0 beam #%d ≥ min(k, n)' % k_, ge_k(e, sf) and kk == 'arg:k', 'ef = %s; k = %s' % (flow.render(e)[:110], kk))
        if not cs:
            ctx.missing('C16.R3', 'search_fp32: call of search_layer0_exact')
    ck = ctx.body('C16.R3', 'hnsw_backend::compute_search_k')
    if ck is not None:
        ov = flow.Origin(ck, stop_at_vars=True)
        zero = [(i, tg) for i, blk in enumerate(ck.blocks) if blk['t']['k'] == 'switch' for tg, p in flow.switch_edge_predicates(ck, i, ov) if p == 'cmp[+ arg:k == 0]']
        live = ck.reach([0], avoid_edges=zero) | {0}
        e = flow.Origin(ck, live=live).of_local(0)
        e0 = flow.Origin(ck).of_local(0)
        ctx.inst('C16.R3', ck.short, 'every return for k ≥ 1 is ≥ k (k ≤ 10 000)', bool(zero) and ge_k(e, ck), 'returns for k ≥ 1: %s' % flow.render(e)[:260])
    n_sk = 0
    for b in prog.bodies.values():
        if not re.search(r'hnsw_backend::HnswBackend::knn_search\w*$', b.id.split('::{')[0]) or b.kind == 'Promoted':
            continue
        of = flow.Origin(b)
        for c in b.calls:
            if c.callee and re.search(r'HnswVectorIndex::knn_search\w*$', c.callee):
                n_sk += 1
                kk = flow.render(of.of_operand(c.args[2]))
                m_ = re.match(r'^cap:(\w+)$', kk)
                if m_:
                    # captured by a (rayon) closure: the variable of the enclosing function
                    rootb = prog.bodies.get(b.root, b)
                    ls = rootb.var_local(m_.group(1))
                    if len(ls) == 1:
                        kk = flow.render(flow.Origin(rootb).of_local(ls[0]))
                idx = sum(1 for x in ctx.instances if x.get('config') == ctx.config and x['rule'] == 'C16.R3' and x['key'].startswith('C16.R3 | %s | index asked' % b.short.split('::{')[0]))
                ctx.inst('C16.R3', b.short.split('::{')[0], 'index asked for compute_search_k(k, live, total) candidates #%d' % idx, bool(re.match(r'^hnsw_backend::compute_search_k\((arg|cap|var):k\b', kk)) or kk.startswith('hnsw_backend::compute_search_k('), 'k passed to the index: %s' % kk[:100])
    # the caller's ef override reaches the index unchanged: the index applies its adaptive default beam (≥ 200, near-exhaustive for small indexes) only
    # when the override is None, so turning None into Some(search_k) narrows the beam to the oversampled k as soon as one tombstone exists
    for b in prog.bodies.values():
        if not re.search(r'hnsw_backend::HnswBackend::knn_search\w*$', b.id.split('::{')[0]) or b.kind == 'Promoted':
            continue
        of = flow.Origin(b)
        for c in b.calls:
            if c.callee and re.search(r'HnswVectorIndex::knn_search_with_ef\w*$', c.callee) and len(c.args) > 3:
                ef = flow.render(of.of_operand(c.args[3]))
                idx = sum(1 for x in ctx.instances if x.get('config') == ctx.config and x['rule'] == 'C16.R3' and x['key'].startswith('C16.R3 | %s | ef override' % b.short.split('::{')[0]))
                ctx.inst('C16.R3', b.short.split('::{')[0], 'ef override handed to the index unchanged #%d' % idx, ef in ('arg:ef_search_override', 'cap:ef_search_override'), 'ef argument: %s' % ef[:100])
    hi = ctx.body('C16.R3', 'HnswVectorIndex::knn_search_with_ef_cancel_impl')
    if hi is not None:
        # role, found structurally: the beam width is the variable handed to the backend search (whatever it is called in the source)
        util.bind_role(hi, 'ef_search', type_rx=r'^usize$', used_as=(r'AnnBackend::search_with_cancel$', 3))
        hv = flow.Origin(hi, stop_at_vars=True)
        efl = hi.var_local('ef_search')
        efo = flow.render(flow.Origin(hi).of_local(efl[0])) if efl else ''
        none_e = util.option_edges(hi, r'arg:ef_search_override$', 'None')
        ctx.inst('C16.R3', hi.short, 'without an override the beam starts from the default 200 (raised for small indexes), with one it is clamped to [k, 10 000]',
                 bool(none_e) and bool(re.search(r'Ord::clamp\(.*Ord::max\(arg:k, 1\), 10000\)|impls::clamp\(.*Ord::max\(arg:k, 1\), 10000\)|::clamp\(.*, Ord::max\(arg:k, 1\), 10000\)', efo)) and ('200' in efo),
                 'ef_search = %s' % efo[:200])
    ctx.floor('C16.R3', 'index search calls in the backend', n_sk, 2, 'single and batch search')
    # ------------------------------------------------------------------ R4 the pruning bound tracks the beam
    ctx.rule('C16.R4', 'in every beam search of the graph (query-time layer 0 and the construction-time layers) the pruning bound `worst_dist` is refreshed from the result '
                       'heap after EVERY change of that heap: no path leads from a push / pop on `results` to the next comparison against the bound (stop test, admission '
                       'test) without an assignment of the bound in between. A bound that lags behind the heap (e.g. refreshed only on eviction) still equals the entry '
                       'point\'s distance when the beam first fills, and the search stops after ~ef visited nodes: recall collapses on high-dimensional data')
    n4 = 0
    for root_nm in ('FlatGraph::search_layer0_exact', 'FlatGraph::search_at_layer_into'):
        rootb = ctx.body('C16.R4', root_nm)
        if rootb is None:
            continue
        for b in prog.family(rootb):
            # role, found structurally: the pruning bound is the f32 variable that is refreshed from the top of a search heap (a rename in /repo changes nothing here)
            util.bind_role(b, 'worst_dist', type_rx=r'^f32$', origin_rx=r'SearchHeap::peek\(', full=True)
            wl = b.var_local('worst_dist')
            if not wl:
                continue
            of4 = flow.Origin(b)
            ov4 = flow.Origin(b, stop_at_vars=True)
            muts = [c for c in b.calls if c.callee and re.search(r'SearchHeap(<.*>)?::(push|pop)$', flow.short(c.callee)) and c.args and
                    flow.render(of4.of_operand(c.args[0])).endswith('FlatSearchScratch.results')]
            refresh, from_peek = set(), 0
            for i_, blk in enumerate(b.blocks):
                if i_ not in b.live_blocks():
                    continue
                for st in blk['s']:
                    if 'rv' in st and st['pl']['l'] in wl and not st['pl'].get('p'):
                        refresh.add(i_)
                        if 'SearchHeap::peek(' in flow.render(of4.of_rvalue(st['rv'], 0, frozenset())):
                            from_peek += 1
                c_ = b.call_at(i_) if blk['t']['k'] == 'call' else None
                if c_ is not None and c_.dest is not None and c_.dest['l'] in wl and not c_.dest.get('p'):
                    refresh.add(c_.to if c_.to is not None else i_)
                    if 'SearchHeap::peek(' in flow.render(of4.of_local(c_.dest['l'])):
                        from_peek += 1
            uses = set()
            for i_, blk in enumerate(b.blocks):
                if i_ not in b.live_blocks():
                    continue
                for st in blk['s']:
                    rv = st.get('rv')
                    if rv and rv['k'] == 'bin' and rv['op'] in ('Gt', 'Lt', 'Ge', 'Le') and any(flow.render(ov4.of_operand(rv[s_])) == 'var:worst_dist' for s_ in ('a', 'b')):
                        uses.add(i_)
            stale = []
            for c in muts:
                if c.to is None:
                    continue
                r4 = b.reach([c.to], avoid_blocks=refresh) | ({c.to} - refresh)
                hit = sorted(u for u in uses if u in r4)
                if hit:
                    stale.append((c, hit[0]))
            n4 += 1
            ctx.inst('C16.R4', b.short, 'the pruning bound is refreshed after every change of the result heap', bool(muts) and bool(uses) and from_peek >= 1 and not stale,
                     ('after %s at %s the comparison at %s is reachable without refreshing worst_dist' % (flow.short(stale[0][0].callee), stale[0][0].loc, b.loc_of(stale[0][1]))) if stale
                     else '%d heap changes, %d comparisons against the bound, %d refresh sites (%d from peek)' % (len(muts), len(uses), len(refresh), from_peek))
    ctx.floor('C16.R4', 'beam-search bodies with a pruning bound', n4, 2, 'search_layer0_exact, search_at_layer_into')
    # ------------------------------------------------------------------ R5 reverse edges of the graph construction
    ctx.rule('C16.R5', 'reverse edges (graph construction): merge_and_prune_reverse_edge_with_scratch leaves the target\'s adjacency list as it is only when the arguments are '
                       'invalid (layer above the top layer, an id outside the graph, a self-loop, a target that is not on this layer) or the edge exists already — a closed '
                       'table; on every other path the list is rewritten (set_layer_neighbors), and every rewrite was offered the incoming node (appended, or pushed into '
                       'the candidate list of the re-selection). A list that refuses newcomers for any other reason — "it is full", "this is layer 0" — leaves every node '
                       'inserted after the lists filled up (2·M nodes) without incoming edges: no search can reach it and recall collapses on every build route '
                       '(online, bulk, compaction and recovery all build through this function)')
    mp = ctx.body('C16.R5', 'FlatGraph::merge_and_prune_reverse_edge_with_scratch')
    if mp is not None:
        of5 = flow.Origin(mp)
        S = set(c.bb for c in mp.calls if c.callee and c.callee.endswith('FlatGraph::set_layer_neighbors'))
        rets = set(x for x in mp.return_blocks() if x in mp.live_blocks())
        before = (mp.reach([0], avoid_blocks=S) | {0}) - S
        A = r'arg:\w+'
        SKIP = [('layer above the top layer', flow.cmp_rx(A, A + r'→FlatGraph\.max_layer', '>=', 1)),
                ('id outside the graph', flow.cmp_rx(r'FlatGraph::len\(%s\)' % A, A, '<=', 0)),
                ('self-loop', flow.cmp_rx(A, A, '==', 0)),
                ('target not on this layer', r'^!bool\[FlatGraph::layer_has_dense\(%s, %s, %s\)\]$' % (A, A, A)),
                ('edge already present', r'^bool\[slice::contains\(FlatGraph::neighbors\(%s, %s, %s\), (%s)\)\]$' % (A, A, A, A))]

        def positive(p):
            """¬(E ≥ c) as E ≤ c−1, ¬(E ≤ c) as E ≥ c+1 (integers): one spelling per test, however the source negates it"""
            m_ = re.match(r'^!cmp\[\+ (.*) (>=|<=) (-?\d+)\]$', p)
            if not m_:
                return p
            return 'cmp[+ %s %s %d]' % (m_.group(1), '<=' if m_.group(2) == '>=' else '>=', int(m_.group(3)) + (-1 if m_.group(2) == '>=' else 1))
        found, unknown, incoming = {}, [], None
        for i_, blk in enumerate(mp.blocks):
            if blk['t']['k'] != 'switch' or i_ not in mp.live_blocks() or i_ not in before or not (mp.reach([i_]) & S):
                continue
            for tg, p in flow.switch_edge_predicates(mp, i_, of5):
                after = mp.reach([tg]) | {tg}
                if (after & S) or not (after & rets):
                    continue
                # an edge that commits to returning without a rewrite of the list
                cls = None
                for nm_, rx_ in SKIP:
                    m_ = re.match(rx_, positive(p))
                    if m_:
                        cls = nm_
                        if nm_ == 'edge already present':
                            incoming = m_.group(1)
                        break
                if cls is None:
                    unknown.append((p, mp.loc_of(i_)))
                else:
                    found[cls] = found.get(cls, 0) + 1
        ctx.inst('C16.R5', mp.short.replace('ann_backend::', ''), 'the target\'s list is left untouched only for invalid arguments or an existing edge', bool(S) and not unknown and 'edge already present' in found,
                 ('the reverse edge is dropped without touching the target\'s list when %s (tested at %s): not an argument-validity test and not "already a neighbour" — nodes that '
                  'arrive while this holds get no incoming edge from this neighbour' % (unknown[0][0][:120], unknown[0][1])) if unknown else
                 'exits without a rewrite: %s' % ', '.join('%s ×%d' % kv for kv in sorted(found.items())))
        ctx.floor('C16.R5', 'exits of the reverse-edge merge that leave the list untouched', sum(found.values()) + len(unknown), 6, 'top layer, target range, incoming range, self-loop, not on layer, present')
        if incoming is None and mp.argc >= 4:
            incoming = 'arg:' + mp.local_name(4)
        inc = re.escape(incoming or 'arg:?')
        offers = set(c.bb for c in mp.calls if c.callee and c.callee.endswith('::push') and len(c.args) == 2 and
                     re.match(r'^(?:%s|tuple\{%s, .*\})$' % (inc, inc), flow.render(of5.of_operand(c.args[1]))))
        present = [(i_, tg) for i_, blk in enumerate(mp.blocks) if blk['t']['k'] == 'switch' and i_ in mp.live_blocks() for tg, p in flow.switch_edge_predicates(mp, i_, of5)
                   if re.match(r'^bool\[slice::contains\([^|]*, %s\)\]$|^bool\[[^|]*Iterator>::any\([^|]*, closure:[^|{]*\{closure#\d+\}\{%s\}\)\]$' % (inc, inc), p)]
        r5 = mp.reach([0], avoid_blocks=offers, avoid_edges=present) | {0}
        blind = sorted(S & r5)
        ctx.inst('C16.R5', mp.short.replace('ann_backend::', ''), 'every rewrite of the list was offered the incoming node', bool(S) and bool(offers) and not blind,
                 ('set_layer_neighbors at %s is reachable without %s having been pushed into the list or its candidates' % (mp.loc_of(blind[0]), incoming)) if blind else
                 '%d rewrites, %d pushes of %s, %d "already in the list" edges' % (len(S), len(offers), incoming, len(present)))
    # compute_search_k compensates the tombstone share: it must ask for about k · slots / live candidates. An INTEGER quotient that is multiplied afterwards has lost
    # its fractional part (45 % tombstones → factor 1 instead of 1.8 → 6–7 live results for k = 10): no integer division may feed a multiplication there
    ck = ctx.body('C16.R3', 'hnsw_backend::compute_search_k')
    if ck is not None:
        ofk = flow.Origin(ck)

        def _has_int_div(e, depth=0):
            if depth > 14 or not isinstance(e, tuple):
                return False
            if e[0] == 'bin' and e[1].startswith('Div'):
                # operands that are integers (no float cast below)
                return not ('f64' in flow.render(e) or 'f32' in flow.render(e))
            if e[0] == 'cast':
                return False if e[2] in ('f64', 'f32') and False else _has_int_div(e[1], depth + 1)
            if e[0] in ('field', 'downcast'):
                return _has_int_div(e[1], depth + 1)
            if e[0] == 'phi':
                return any(_has_int_div(a, depth + 1) for a in e[1])
            return False
        trunc = []
        for i_, blk in enumerate(ck.blocks):
            if i_ not in ck.live_blocks():
                continue
            for st in blk['s']:
                rv = st.get('rv')
                if rv and rv.get('k') == 'bin' and rv['op'].startswith('Mul'):
                    for side in ('a', 'b'):
                        if _has_int_div(ofk.of_operand(rv[side])):
                            trunc.append(ck.loc_of(i_))
        for c in ck.calls:
            if c.callee and re.search(r'(saturating|wrapping|checked|overflowing)_mul$', c.callee):
                for a in c.args:
                    if a.get('k') in ('mv', 'cp') and _has_int_div(ofk.of_operand(a)):
                        trunc.append(c.loc)
        ctx.inst('C16.R3', ck.short, 'the oversampling factor is not truncated: no integer quotient is multiplied', not trunc,
                 ('an integer quotient is multiplied at %s: the fractional part of slots / live is lost and the backend under-fetches whenever the ratio is not whole' % trunc[0]) if trunc
                 else 'no multiplication of an integer quotient in compute_search_k')

    # ------------------------------------------------------------------ R6 the distance kernels see every coordinate once
    ctx.rule('C16.R6', 'the graph is built and searched under the metric the user asked for only if every distance kernel accumulates every coordinate exactly once: the '
                       'element ranges read by the loops of each SIMD kernel partition 0..len (symbolic chaining of the loop spans, kvstatic/cover.py — same analysis as '
                       'C06.R7). A kernel that skips or double-counts coordinates for some dimensions distorts the metric there, and recall against the true metric '
                       'collapses (0.15–0.39 at dimension 32 in the seeded change) while every in-tree recall guard, which uses the same kernel, stays green')
    from kvstatic import cover as _cover
    from rules.C17 import LANES as _LANES
    n6 = _cover.kernel_partitions(ctx, prog, 'C16.R6', _LANES)
    ctx.floor('C16.R6', 'kernel × slice-parameter partitions', n6, 21, '12 kernels: 9 with two slices, 3 with one')
    # ------------------------------------------------------------------ R7 every vector of a batch becomes a graph node
    ctx.rule('C16.R7', 'route independence (bulk build, compaction rebuild and recovery all go through HnswVectorIndex::parallel_insert_batch_impl; the online route inserts one '
                       'vector at a time): every vector of the batch reaches the graph — each backend insert call in that function receives the batch slice itself, or the '
                       'elements of an exhaustive chunking of it (`chunks`, whose last chunk takes the remainder; `chunks_exact` drops it). A vector left out is counted, '
                       'stored and fetchable by id but has no node: recall of the rebuilt index falls while the online route keeps 1.0. The recall figure itself is not decided')
    pb = ctx.body('C16.R7', 'HnswVectorIndex::parallel_insert_batch_impl')
    if pb is not None:
        po = flow.Origin(pb)
        ins = [c for c in pb.calls if c.callee and re.search(r'AnnBackend::(sequential|parallel)_insert_slice$', c.orig or c.callee)]
        if not ins:
            ctx.missing('C16.R7', 'parallel_insert_batch_impl: the backend insert calls')
        for k7, c in enumerate(ins):
            r7 = flow.render(po.of_operand(c.args[1])) if len(c.args) > 1 else ''
            whole = r7 == 'arg:data'
            chunked = re.match(r'^[^()]*::next\((?:&mut )?slice::chunks\(arg:data, .*\)\)(@Some→Some\.0)?$', r7) is not None and 'chunks_exact' not in r7
            ctx.inst('C16.R7', pb.short, 'backend insert #%d receives the whole batch (or an exhaustive chunking of it)' % k7, whole or chunked,
                     '%s receives %s%s' % (flow.short(c.orig or c.callee), r7[:140], '' if (whole or chunked) else ' — not the batch slice itself: vectors outside it never become graph nodes although they are counted'))
        ctx.floor('C16.R7', 'backend insert calls of the batch path', len(ins), 2, 'sequential (small batches) and parallel')
    ctx.stat('functions_analysed', len(R))
