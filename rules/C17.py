"""C17 — unsafe index and SIMD code stays in bounds.

Decided statically, as necessary conditions of memory safety:
  R1  typestate "validated dense id" (kvstatic/idflow.py): every id reaching an unchecked accessor of ann_backend.rs is below the node
      count on every path; optimistic summaries (parameters, heap contents, container contents, return values) are discharged by
      obligations on callers and on every push; neighbour indexes range over 0..count(id); bitset prepared for the same n;
      structural facts the argument relies on (count clamp, checked accessors really check, node count never shrinks).
  R2  kernel entry: f32 kernels only through length-asserting wrappers or the metric kernel; every slice that reaches the metric
      kernel is a stored vector or a query/embedding whose length was compared with the dimension on the way in.
  R3  closed inventory of unsafe operations per function.
  R4  every vector load / store of the kernels proved in bounds (linear bounds over loop ranges).
  R5  packed record layout shapes + lemma; no in-bounds pointer arithmetic past a record in the prefetch.
  R6  CPU dispatch: kernels run only after their #[target_feature] sets were detected; intrinsics covered by the kernel's own set.
Not decided: record-layout arithmetic of PackedLevel0.
"""
import re

from kvstatic import flow, idflow, util
from kvstatic.callgraph import callers_index

MANIFEST = {
    'text': 'Decides the caller-side obligations of the unsafe code, which are necessary for memory safety: every dense id reaching '
            'count_unchecked / neighbor_unchecked / vector_at_unchecked / distance_*_unchecked / mark_if_unvisited_unchecked / record_ptr / the '
            'level-0 prefetch is validated against the node count on every path (forward must-dataflow per body family with optimistic '
            'parameter, heap, container and return summaries, each discharged by an obligation on all callers / all pushes; an unrecognised '
            'idiom fails closed), neighbour indexes range over 0..count(id), the visited bitset is prepared for the same n; the f32 kernels are '
            'reachable only through the length-asserting wrappers of simd.rs and the metric kernel, whose slice arguments are stored vectors or '
            'queries compared with the dimension on every call chain; the per-function table of unsafe operations is closed; every vector load / store of the SIMD kernels is proved inside its slice '
            '(off + lanes ≤ len from loop ranges and floor divisions, linear bounds); the packed record layout is checked against a fixed lemma; kernels are '
            'dispatched only behind detection of every CPU feature they declare.',
    'design_ref': 'DESIGN.md §4.17',
    'note': 'Trusted base: rustc MIR, guard normal forms (casts transparent), jump threading of || chains. Use-after-free is excluded by '
            'ownership (borrow checker), not by this check.',
    'technique': 'typestate dataflow with interprocedural summaries and obligations + closed inventory on MIR',
}

EXPLANATION = 'FLOW/WMC/GUARD/INV rules of DESIGN §4.17 on ann_backend.rs, simd.rs and hnsw_index.rs.'

UNCHECKED = {'PackedLevel0::count_unchecked': [1], 'PackedLevel0::neighbor_unchecked': [1], 'PackedLevel0::vector_at_unchecked': [1],
             'FlatGraph::vector_at_unchecked': [1], 'FlatGraph::distance_to_unchecked': [2], 'FlatGraph::distance_between_dense_unchecked': [1, 2],
             'FlatSearchScratch::mark_if_unvisited_unchecked': [1], 'FlatGraph::prefetch_level0_neighbor_lookahead': [1], 'PackedLevel0::record_ptr': [1]}
CHECKED = {'FlatGraph::distance_to': 2, 'FlatGraph::vector_at': 1, 'PackedLevel0::vector_at': 1}
N_RX = r'FlatGraph::len\((?:arg|cap|var):\w+\)'   # plus variables defined once from it (idflow.BodyFlow.count_vars)

# closed inventory of unsafe operations per function of the default-feature library (callee leaf names)
INVENTORY = {
    'ann_backend::FlatGraph::distance_between_dense_unchecked': {'vector_at_unchecked'},
    'ann_backend::FlatGraph::distance_to_unchecked': {'vector_at_unchecked'},
    'ann_backend::FlatGraph::greedy_descent_layer': {'distance_to_unchecked'},
    'ann_backend::FlatGraph::merge_and_prune_reverse_edge_with_scratch': {'distance_between_dense_unchecked'},
    'ann_backend::FlatGraph::prefetch_dense_vector': {'_mm_prefetch'},
    'ann_backend::FlatGraph::prefetch_level0_neighbor_lookahead': {'neighbor_unchecked'},
    'ann_backend::FlatGraph::search_at_layer_into': {'count_unchecked', 'prefetch_level0_neighbor_lookahead', 'neighbor_unchecked', 'mark_if_unvisited_unchecked', 'distance_to_unchecked'},
    'ann_backend::FlatGraph::search_layer0_exact': {'count_unchecked', 'prefetch_level0_neighbor_lookahead', 'neighbor_unchecked', 'mark_if_unvisited_unchecked', 'distance_to_unchecked'},
    'ann_backend::FlatGraph::select_diverse_neighbors_into': {'distance_between_dense_unchecked'},
    'ann_backend::FlatGraph::vector_at_unchecked': {'vector_at_unchecked'},
    'ann_backend::FlatSearchScratch::mark_if_unvisited_unchecked': {'get_unchecked_mut'},
    'ann_backend::PackedLevel0::count_unchecked': {'get_unchecked'},
    'ann_backend::PackedLevel0::neighbor_unchecked': {'get_unchecked'},
    'ann_backend::PackedLevel0::record_ptr': {'add'},
    'ann_backend::PackedLevel0::vector_at': {'from_raw_parts'},
    'ann_backend::PackedLevel0::vector_at_unchecked': {'add', 'from_raw_parts'},
    'hnsw_backend::check_disk_space': {'zeroed', 'statvfs'},
}
REASONS = {'hnsw_backend::check_disk_space': 'statvfs FFI on a NUL-terminated path with a zeroed out-struct; result checked',
           'ann_backend::FlatGraph::prefetch_dense_vector': 'prefetch hint: the address is never dereferenced; the id is guarded before record_ptr (R1); further cache lines are addressed with wrapping_add (R5)',
           'ann_backend::PackedLevel0::record_ptr': 'pointer arithmetic inside the packed buffer; callers pass validated ids (R1)',
           'ann_backend::PackedLevel0::vector_at': 'checked accessor: node_start refuses ids >= len before from_raw_parts over same-width words'}
DIM_RX = r'(?:arg|cap|var):\w+→(?:FlatGraph|HnswVectorIndex)\.dimension'
SLICE_TY = r"^&('\w+ )?\[f32\]"


def _fn(b):
    return b.short.replace('ann_backend::', '').split('::{')[0]


def _count(ctx, rid, prefix):
    return sum(1 for x in ctx.instances if x.get('config') == ctx.config and x['rule'] == rid and x['key'].startswith('%s | %s' % (rid, prefix)))


def _preds(b, o):
    return [(i, tg, p) for i, blk in enumerate(b.blocks) if blk['t']['k'] == 'switch' and i in b.live_blocks() for tg, p in flow.switch_edge_predicates(b, i, o)]


def _derives_from(b, name, depth=6):
    """Names of the user variables that `name` derives from through a chain of named variables (loop iterators, `?` temporaries, pattern bindings), nearest first —
    util.var_chain_reaches, but returning what is reached instead of asking for a target by its source name."""
    ov = flow.Origin(b, stop_at_vars=True)
    seen, work, out = set(), [name], []
    for _ in range(depth):
        nxt = []
        for n in work:
            if n in seen:
                continue
            seen.add(n)
            for l in b.var_local(n):
                for m in re.findall(r'var:(\w+)', flow.render(ov.of_local(l))):
                    if m not in out:
                        out.append(m)
                    nxt.append(m)
        work = nxt
        if not work:
            break
    return out


def _count_of(b, f, name):
    """Rendering of `name`'s definition when `name` is a single-assignment variable holding a neighbour count (count_unchecked(..)), else ''."""
    ls = b.var_local(name)
    if len(ls) != 1:
        return ''
    r = flow.render(f.ov.of_local(ls[0]))
    return r if r.startswith('PackedLevel0::count_unchecked(') else ''


def _bind_roles(ctx, prog):
    """Roles of /repo locals the structural facts of R1 talk about, found by what defines / uses them (a pure rename in /repo changes nothing for the rules).
    Runs before any Origin of these bodies exists."""
    def _b(ident):
        try:
            return prog.body(ident)
        except KeyError:
            return None
    # the bitset length prepare() asks for: the word count derived from node_count that is handed to Vec::resize
    util.bind_role(_b('FlatSearchScratch::prepare'), 'required_words', type_rx=r'^usize$', origin_rx=r'arg:node_count\b', full=True, used_as=(r'Vec::resize$', 1))
    # node_start's widened copy of its id parameter (`dense_id as usize`)
    util.bind_role(_b('PackedLevel0::node_start'), 'dense', type_rx=r'^usize$', origin_rx=r'^arg:dense_id$', full=True)


def r1(ctx, prog):
    ctx.rule('C17.R1', 'validated dense id: every id passed to an unchecked accessor is below the node count on every path (edge `id < n`, normal return of a '
                       'checked accessor, valid variable, item popped from the scratch heaps after prepare(), element of a container that only receives '
                       'valid ids, `.0` of greedy_descent_layer with a valid start); every optimistic summary is discharged: all heap / container pushes push '
                       'valid ids and all callers pass valid ids for the parameters that need it; neighbour indexes range over 0..count_unchecked(same id); '
                       'mark_if_unvisited_unchecked runs after scratch.prepare(node count, _)')
    _bind_roles(ctx, prog)
    cfg = idflow.Config(N_RX, UNCHECKED, CHECKED, heaps_rx=r'FlatSearchScratch\.(?:candidates|results)\)', heap_push='SearchHeap::push', heap_pop='SearchHeap::pop',
                        prepare='FlatSearchScratch::prepare', ret_summaries=[('FlatGraph::greedy_descent_layer', [2])])
    eng = idflow.Engine(prog, cfg, r'ann_backend')
    bodies = [b for b in prog.bodies.values() if '::ann_backend::' in b.id and b.kind != 'Promoted' and b.crate == 'kyrodb_engine']
    bodies.sort(key=lambda b: b.id)
    roots = [b for b in bodies if b.kind != 'Closure']
    for b in bodies:
        eng.flow_of(b)
    needed = eng.solve(roots)
    obs = eng.collect(bodies, frozenset(), needed)
    n_use = 0
    for o in obs:
        fn = _fn(o.body)
        descr = {'use': '%s receives a validated id', 'heap-push': '%s pushes a validated id', 'container-push': '%s pushes a validated id',
                 'param': '%s with a validated id'}[o.kind] % o.descr
        n = _count(ctx, 'C17.R1', '%s | %s #' % (fn, descr))
        n_use += o.kind == 'use'
        ctx.inst('C17.R1', fn, '%s #%d' % (descr, n), o.ok, '%s: `%s` at %s%s' % (o.kind, o.expr[:70], o.loc, '' if o.ok else ' is not validated on every path to this call' + ((': ' + o.why) if o.why else '')))
    ctx.floor('C17.R1', 'unchecked accessor id arguments', n_use, 26, '24 call sites, 26 id arguments on the pinned tree (incl. record_ptr)')
    ctx.floor('C17.R1', 'heap / container pushes', sum(1 for o in obs if o.kind in ('heap-push', 'container-push')), 15, '10 heap pushes + 5 container pushes')
    ctx.floor('C17.R1', 'caller obligations', sum(1 for o in obs if o.kind == 'param'), 12, 'arguments passed for parameters whose validity is needed')
    for rid_, lst in sorted(needed.items()):
        b = prog.bodies[rid_]
        ind = eng.indirect_callers(b)
        ctx.inst('C17.R1', _fn(b), 'needed entry assumptions are imposed on direct callers only', not ind,
                 'needs %s; callers %d%s' % ([t for _, t in lst], len(eng.cidx.get(b.id, [])), '' if not ind else '; indirect call site in %s' % ind[0][0].short))
    ctx.stat('needed_assumptions', {prog.bodies[k].short.replace('ann_backend::', ''): [t for _, t in v] for k, v in needed.items()})
    ctx.stat('summaries', {'containers': {'%s | %s' % (k[0].split('ann_backend::')[-1], k[1]): v[1] for k, v in eng._containers.items()},
                           'fillers': {'%s#%d' % (k[0].split('ann_backend::')[-1], k[1]): v for k, v in eng.fillers.items()},
                           'return': {k.split('ann_backend::')[-1]: v for k, v in eng._ret_ok.items()}})
    # one graph per body family
    for r in roots:
        recv = set()
        for b in prog.family(r):
            f = eng.flow_of(b)
            for i, tg, p in _preds(b, f.ov):
                if i in f.state_in and f._lt_n(p):
                    for m in re.finditer(r'FlatGraph::len\((?:arg|cap|var):(\w+)\)', p):
                        recv.add(m.group(1))
            for c in b.calls:
                if not c.callee or not c.args or 'FlatSearchScratch' in c.callee:
                    continue
                g = prog.resolve_local(c.callee)
                if any(c.callee.endswith(k) for k in list(UNCHECKED) + list(CHECKED)) or (g is not None and g.id in needed):
                    m = re.match(r'^(?:arg|cap|var):(\w+)', f.rv(c.args[0]))
                    recv.add(m.group(1) if m else f.rv(c.args[0])[:30])
            for v, o in f.count_vars.items():
                m = re.match(r'^FlatGraph::len\((?:arg|cap|var):(\w+)\)$', o)
                if m:
                    recv.add(m.group(1))
        if recv:
            ctx.inst('C17.R1', _fn(r), 'guards, accessors and callees of the family refer to one graph', len(recv) == 1, 'graph receiver(s): %s' % sorted(recv), nontrivial=False)

    # neighbour indexes, prefetch triple, bitset
    for b in bodies:
        f = eng.flow_of(b)
        fn = _fn(b)
        for c in b.calls:
            if not c.callee or c.bb not in f.term_state:
                continue
            if c.callee.endswith('PackedLevel0::neighbor_unchecked') and len(c.args) >= 3:
                idv = f.rv(c.args[1])
                ixv = f.rv(c.args[2])
                ixf = f.rf(c.args[2])
                ok = False
                why = 'unrecognised index idiom'
                m_ix = re.match(r'^var:(\w+)$', ixv)
                if m_ix:
                    # the index is a loop variable: it ranges over 0..N where N is a single-assignment variable holding count_unchecked(same id). The two variables
                    # are identified by this relation (the index derives from N through the loop iterator), not by what they are called in the source
                    ncs = [nco_ for nco_ in (_count_of(b, f, n_) for n_ in _derives_from(b, m_ix.group(1))) if nco_]
                    nco = ncs[0] if len(ncs) == 1 else ''
                    same = bool(re.match(r'^PackedLevel0::count_unchecked\(.*, %s\)$' % re.escape(idv), nco))
                    rng = bool(re.match(r'^range::next\(range::Range::Range\{0, PackedLevel0::count_unchecked\(', ixf)) and len(ncs) == 1
                    ok = same and rng
                    why = 'idx ranges over 0..neighbor_count (%s), neighbor_count = %s' % (rng, nco[:70])
                else:
                    m = re.match(r'^\(arg:idx (?:AddWithOverflow|Add) (\d)\)(?:\.0)?$', ixv)   # release builds have no overflow check
                    if m:
                        cst = int(m.group(1))
                        edges = [(i, tg) for i, tg, p in _preds(b, f.ov) if re.match(r'^cmp\[\+ arg:idx - arg:neighbor_count <= -%d\]$' % (cst + 1), p)]
                        r = f.tv.reach([0], avoid_edges=edges)
                        ok = bool(edges) and c.bb not in r
                        why = 'every path to the call passes the edge idx + %d < neighbor_count: %s' % (cst, ok)
                ctx.inst('C17.R1', fn, 'neighbor index #%d within the node\'s neighbour count' % _count(ctx, 'C17.R1', '%s | neighbor index' % fn), ok,
                         'neighbor_unchecked(%s, %s) at %s: %s' % (idv[:40], ixv, c.loc, why))
            if c.callee.endswith('prefetch_level0_neighbor_lookahead') and len(c.args) >= 4:
                idv = f.rv(c.args[1])
                # (count, index) are whatever variables are passed: the count is a single-assignment variable holding count_unchecked(same id) and the index
                # derives from it through the loop iterator — compared with each other, not with source names
                m_nc, m_ix = re.match(r'^var:(\w+)$', f.rv(c.args[2])), re.match(r'^var:(\w+)$', f.rv(c.args[3]))
                nco = _count_of(b, f, m_nc.group(1)) if m_nc else ''
                ok = bool(m_nc) and bool(m_ix) and bool(re.match(r'^PackedLevel0::count_unchecked\(.*, %s\)$' % re.escape(idv), nco)) \
                    and m_nc.group(1) in _derives_from(b, m_ix.group(1))
                ctx.inst('C17.R1', fn, 'prefetch gets (id, count(id), idx in 0..count) of one node #%d' % _count(ctx, 'C17.R1', '%s | prefetch gets' % fn), ok,
                         'prefetch(%s, %s, %s); neighbor_count = %s' % (idv[:40], f.rv(c.args[2]), f.rv(c.args[3]), nco[:60]))
            if c.callee.endswith('mark_if_unvisited_unchecked'):
                prep = [p for p in b.calls if p.callee and p.callee.endswith('FlatSearchScratch::prepare')]
                fin = [p for p in b.calls if p.callee and (p.callee.endswith('FlatSearchScratch::finish_query') or (p.callee.endswith('Vec::clear') and 'visited_bits' in f.rf(p.args[0])))]
                ok = bool(prep) and any(b.dominates(p.bb, c.bb) and f.is_n(f.rv(p.args[1])) for p in prep) and \
                    all(c.bb not in b.reach([p.to]) for p in fin if p.to is not None)
                ctx.inst('C17.R1', fn, 'bitset prepared for the guard\'s node count, not trimmed before the mark #%d' % _count(ctx, 'C17.R1', '%s | bitset prepared' % fn), ok,
                         'prepare(%s, _) dominates; finish_query cannot reach the mark' % ([f.rv(p.args[1]) for p in prep][:1]))
    # structural facts the typestate relies on
    pr = ctx.body('C17.R1', 'FlatSearchScratch::prepare')
    if pr is not None:
        of = flow.Origin(pr)
        ov = flow.Origin(pr, stop_at_vars=True)
        clears = [(c, flow.render(of.of_operand(c.args[0]))) for c in pr.calls if c.callee and c.callee.endswith('SearchHeap::clear')]
        rets = [r for r in pr.return_blocks() if r in pr.live_blocks()]
        ok = all(any(r_.endswith('FlatSearchScratch.' + h) and all(pr.dominates(c.bb, x) for x in rets) for c, r_ in clears) for h in ('candidates', 'results'))
        ctx.inst('C17.R1', _fn(pr), 'prepare clears both heaps on every path', ok and bool(rets), 'cleared: %s' % sorted(r_.split('.')[-1] for _, r_ in clears))
        rs = [c for c in pr.calls if c.callee and c.callee.endswith('Vec::resize') and 'visited_bits' in flow.render(of.of_operand(c.args[0]))]
        rw = pr.var_local('required_words')
        rwo = flow.render(of.of_local(rw[0])) if len(rw) == 1 else ''
        grow = [(i, tg) for i, tg, p in _preds(pr, ov) if re.match(r'^!?cmp\[\+ Vec::len\(arg:self→FlatSearchScratch\.visited_bits\) - var:required_words (>=|<=) -?\d+\]$', p)]
        shr = [c for c in pr.calls if c.callee and re.search(r'Vec::(truncate|clear|pop|drain|set_len|split_off)$', c.callee) and 'visited_bits' in flow.render(of.of_operand(c.args[0]))]
        # the resize is skipped only on the edge len >= required_words
        skip = [(i, tg) for i, tg, p in _preds(pr, ov) if re.match(r'^!cmp\[\+ Vec::len\(arg:self→FlatSearchScratch\.visited_bits\) - var:required_words <= -1\]$|^cmp\[\+ Vec::len\(arg:self→FlatSearchScratch\.visited_bits\) - var:required_words >= 0\]$', p)]
        rsb = [c.bb for c in rs]
        only_skip = bool(skip) and all(r not in pr.reach([0], avoid_blocks=rsb, avoid_edges=skip) for r in rets)
        ctx.inst('C17.R1', _fn(pr), 'prepare sizes the bitset to ceil(node_count / 64) words and never shortens it',
                 len(rs) == 1 and flow.render(ov.of_operand(rs[0].args[1], 0, idflow.FORCE)) == 'var:required_words' and bool(grow) and not shr and only_skip and
                 bool(re.match(r'^\(num::saturating_add\(arg:node_count, 63\) Div 64\)$', rwo)), 'required_words = %s; resize calls %d; shrinking calls %d; resize skipped only when long enough: %s' % (rwo, len(rs), len(shr), only_skip))
    cu = ctx.body('C17.R1', 'PackedLevel0::count_unchecked')
    if cu is not None:
        r0 = flow.render(flow.Origin(cu).of_local(0))
        ctx.inst('C17.R1', _fn(cu), 'the neighbour count is clamped to the per-node capacity', bool(re.match(r'^Ord::min\(.*, arg:self→PackedLevel0\.cap\)$', r0)), r0[:120])
    ns = ctx.body('C17.R1', 'PackedLevel0::node_start')
    if ns is not None:
        ov = flow.Origin(ns, stop_at_vars=True)
        dl = ns.var_local('dense')    # role bound in _bind_roles
        # the guard compares the packed length with the widened copy of the id — or, written without the temporary, with the id parameter itself
        idt = 'var:dense' if dl else 'arg:dense_id'
        ge = [(i, tg) for i, tg, p in _preds(ns, ov) if re.match(r'^!cmp\[\+ PackedLevel0::len\(arg:self\) - %s <= 0\]$|^cmp\[\+ PackedLevel0::len\(arg:self\) - %s >= 1\]$' % (idt, idt), p)]
        some = [i for i, blk in enumerate(ns.blocks) for st in blk['s'] if st.get('rv', {}).get('k') == 'agg' and st['rv'].get('variant') == 'Some']
        r = ns.reach([0], avoid_edges=ge)
        dense_is_id = not dl or (len(dl) == 1 and re.match(r'^(cast\()?arg:dense_id\b', flow.render(flow.Origin(ns).of_local(dl[0]))) is not None)
        ctx.inst('C17.R1', _fn(ns), 'node_start yields Some only for ids below the packed length', bool(ge) and bool(some) and all(s not in r for s in some) and dense_is_id,
                 'guard edges %d; Some built in %s; dense = %s' % (len(ge), some, flow.render(flow.Origin(ns).of_local(dl[0]))[:40] if dl else 'arg:dense_id (no temporary)'))
    va = ctx.body('C17.R1', 'PackedLevel0::vector_at')
    if va is not None:
        frp = [c for c in va.calls if c.callee and c.callee.endswith('from_raw_parts')]
        exp = [c for c in va.calls if c.callee and c.callee.endswith('Option::expect') and 'node_start' in flow.render(flow.Origin(va).of_operand(c.args[0]))]
        ctx.inst('C17.R1', _fn(va), 'checked accessor panics unless node_start accepts the id', bool(frp) and bool(exp) and all(va.dominates(e.bb, x.bb) for e in exp for x in frp),
                 'calls: %s' % [flow.short(c.callee) for c in va.calls if c.callee][:6])
    for nm, inner in (('FlatGraph::vector_at', 'PackedLevel0::vector_at'), ('FlatGraph::distance_to', 'FlatGraph::vector_at')):
        b = ctx.body('C17.R1', nm)
        if b is not None:
            cs = [c for c in b.calls if c.callee and c.callee.endswith(inner)]
            rets = [r for r in b.return_blocks() if r in b.live_blocks()]
            ov = flow.Origin(b, stop_at_vars=True)
            ctx.inst('C17.R1', _fn(b), 'checked accessor goes through the checked lookup with its own id',
                     bool(cs) and all(any(b.dominates(c.bb, r) for c in cs) for r in rets) and all(flow.render(ov.of_operand(c.args[-1], 0, idflow.FORCE)) == 'arg:dense_id' for c in cs), '%d call(s) of %s' % (len(cs), inner))
    # node count never shrinks; level0 grows before dense_to_origin
    shrink = []
    grow_fns = {}
    for b in bodies:
        of = None
        for c in b.calls:
            if not c.callee or not c.args:
                continue
            if re.search(r'Vec::(truncate|clear|pop|drain|set_len|split_off|remove|swap_remove|retain)$', c.callee):
                of = of or flow.Origin(b)
                r = flow.render(of.of_operand(c.args[0]))
                if r.endswith('FlatGraph.dense_to_origin') or r.endswith('PackedLevel0.data'):
                    shrink.append('%s at %s' % (_fn(b), c.loc))
            if c.callee.endswith('Vec::push'):
                of = of or flow.Origin(b)
                if flow.render(of.of_operand(c.args[0])).endswith('FlatGraph.dense_to_origin'):
                    grow_fns.setdefault(b.id, {})['d2o'] = c.bb
            if c.callee.endswith('PackedLevel0::push_node'):
                grow_fns.setdefault(b.id, {})['l0'] = c.bb
    ctx.inst('C17.R1', 'FlatGraph', 'the node count never shrinks (no truncating call on dense_to_origin / packed data)', not shrink, 'shrinking calls: %s' % shrink[:3])
    for bid, d in sorted(grow_fns.items()):
        b = prog.bodies[bid]
        ok = 'l0' in d and ('d2o' not in d or b.dominates(d['l0'], d['d2o']))
        ctx.inst('C17.R1', _fn(b), 'the packed level-0 node is pushed before the node count grows', ok, 'push_node block %s, dense_to_origin.push block %s' % (d.get('l0'), d.get('d2o')))
    ctx.floor('C17.R1', 'functions growing the graph', len(grow_fns), 1, 'connect_with_layer_neighbors_with_scratch')


def r2(ctx, prog):
    ctx.rule('C17.R2', 'kernel entry: the resolved f32 kernels are used only by the length-asserting wrappers of simd.rs and by the metric kernel; the slices '
                       'given to the metric kernel are stored vectors or a query/embedding parameter that, on every call chain, passed a comparison of its '
                       'length with the dimension; backend inserts happen only behind the index-level dimension check')
    kusers = sorted(set(c.body.short.split('::{')[0] for c in prog.callers_of('simd::resolved_f32_kernels')))
    ctx.inst('C17.R2', 'simd::resolved_f32_kernels', 'users ⊆ simd wrappers ∪ MetricDistanceKernel::for_metric',
             bool(kusers) and all(u.startswith('simd::') or u.endswith('MetricDistanceKernel::for_metric') for u in kusers), 'users: %s' % kusers)
    nwrap = 0
    for u in kusers:
        if not u.startswith('simd::'):
            continue
        b = ctx.body('C17.R2', u)
        if b is None:
            continue
        of = flow.Origin(b)
        two = sum(1 for l in range(1, b.argc + 1) if re.match(SLICE_TY, b.locals[l]))
        ind = [c for c in b.calls if c.callee is None]
        if two < 2:
            ctx.inst('C17.R2', u, 'single-slice wrapper (no length relation needed)', len(ind) == 1, 'indirect kernel calls %d' % len(ind), nontrivial=False)
            continue
        nwrap += 1
        def asserted(body, blocks):
            o = flow.Origin(body)
            eq = [(i, tg) for i, tg, p in _preds(body, o) if re.match(r'^cmp\[\+ slice::len\(arg:\w+\) - slice::len\(arg:\w+\) == 0\]$', p) and sorted(set(re.findall(r'arg:(\w+)', p))) == ['a', 'b']]
            r = body.reach([0], avoid_edges=eq)
            return bool(eq) and bool(blocks) and all(x not in r for x in blocks), len(eq)
        kargs = all([flow.render(of.of_operand(a)) for a in c.args] == ['arg:a', 'arg:b'] for c in ind)
        ok, neq = asserted(b, [c.bb for c in ind])
        how = 'in the wrapper'
        if not ok and not b.is_pub:
            # private helper: every caller asserts before handing over its own two slices
            cs = prog.callers_of(b.id)
            ok = bool(cs) and all(asserted(c.body, [c.bb])[0] and [flow.render(flow.Origin(c.body).of_operand(a)) for a in c.args[:2]] == ['arg:a', 'arg:b'] for c in cs)
            how = 'in all %d caller(s) of the private helper: %s' % (len(cs), sorted(set(c.body.short for c in cs)))
        ctx.inst('C17.R2', u, 'equal lengths asserted before the kernel call', ok and bool(ind) and kargs,
                 'asserted %s; indirect kernel calls %d; kernel gets the compared slices: %s' % (how, len(ind), kargs))
    ctx.floor('C17.R2', 'two-slice simd wrappers', nwrap, 3, 'dot_f32, l2_distance_sq_f32, dot_and_norms_f32')
    # slices reaching the metric kernel
    cidx = callers_index(prog)
    work = []
    seen = set()
    sinks = prog.callers_of('MetricDistanceKernel::distance')
    ctx.inst('C17.R2', 'MetricDistanceKernel::distance', 'called only by the three FlatGraph distance functions',
             sorted(set(_fn(c.body) for c in sinks)) == ['FlatGraph::distance_between_dense_unchecked', 'FlatGraph::distance_to', 'FlatGraph::distance_to_unchecked'], '%s' % sorted(set(_fn(c.body) for c in sinks)))
    for c in sinks:
        b = c.body
        of = flow.Origin(b)
        for ai in (1, 2):
            full = flow.render(of.of_operand(c.args[ai]))
            if re.match(r'^(FlatGraph|PackedLevel0)::vector_at(_unchecked)?\(', full):
                ctx.inst('C17.R2', _fn(b), 'kernel operand %d is a stored vector' % ai, True, full[:70], nontrivial=False)
                continue
            m = re.match(r'^arg:(\w+)$', full)
            l = [x for x in range(1, b.argc + 1) if m and m.group(1) in b.varnames.get(x, [])]
            if l:
                work.append((b, l[0]))
                ctx.inst('C17.R2', _fn(b), 'kernel operand %d is the function\'s slice parameter (traced to callers)' % ai, True, full, nontrivial=False)
                continue
            ctx.inst('C17.R2', _fn(b), 'kernel operand %d is a stored vector or a traced parameter' % ai, False, 'unrecognised operand %s' % full[:80])
    n_chain = 0
    while work:
        b, l = work.pop()
        if (b.id, l) in seen:
            continue
        seen.add((b.id, l))
        pname = b.varnames[l][0]
        is_batch = not re.match(SLICE_TY, b.locals[l])
        sites = cidx.get(b.id, [])
        if not sites:
            ctx.inst('C17.R2', _fn(b), 'slice parameter `%s` has a caller or a guard' % pname, False, 'no caller found for a function whose slice reaches the kernel unguarded')
        for cb, cbb in sites:
            c = cb.call_at(cbb)
            short_b = _fn(b).split('::')[-1]
            if c is None or not c.callee or l - 1 >= len(c.args):
                ctx.inst('C17.R2', _fn(cb), 'slice for `%s` of %s is passed by a direct call' % (pname, short_b), False, 'indirect call site at %s' % cb.loc)
                continue
            n_chain += 1
            ov = flow.Origin(cb, stop_at_vars=True)
            e = flow.render(ov.of_operand(c.args[l - 1], 0, idflow.FORCE))
            key = 'slice for `%s` of %s #%d is dimension-checked or a traced parameter' % (pname, short_b, _count(ctx, 'C17.R2', '%s | slice for `%s` of %s #' % (_fn(cb), pname, short_b)))
            preds = _preds(cb, ov)
            tv = flow.ThreadedView(cb)
            if not is_batch:
                edges = [(i, tg) for i, tg, p in preds if re.match(r'^cmp\[\+ (?:%s - slice::len\(%s\)|slice::len\(%s\) - %s) == 0\]$' % (DIM_RX, re.escape(e), re.escape(e), DIM_RX), p)]
                if edges and cbb not in tv.reach([0], avoid_edges=edges):
                    ctx.inst('C17.R2', _fn(cb), key, True, '`%s` at %s: every path passes len == dimension (%d edge(s))' % (e, c.loc, len(edges)))
                    continue
            m = re.match(r'^(arg|cap):(\w+)$', e)
            if m and m.group(1) == 'cap':
                par = prog.bodies.get(cb.parent)
                while par is not None and par.kind == 'Closure':
                    par = prog.bodies.get(par.parent)
                pl = [x for x in range(1, (par.argc if par is not None else 0) + 1) if m.group(2) in par.varnames.get(x, [])]
                if pl:
                    ctx.inst('C17.R2', _fn(cb), key, True, '`%s` at %s: captured parameter of %s' % (e, c.loc, _fn(par)), nontrivial=False)
                    work.append((par, pl[0]))
                    continue
            if m and m.group(1) == 'arg':
                pl = [x for x in range(1, cb.argc + 1) if m.group(2) in cb.varnames.get(x, [])]
                if pl:
                    if cb.is_pub and not cb.short.startswith('ann_backend::') and cb.impl_trait is None:
                        ctx.inst('C17.R2', _fn(cb), key, False, '`%s` at %s: public function hands its slice to the backend without comparing its length with the dimension on every path' % (e, c.loc))
                        continue
                    ctx.inst('C17.R2', _fn(cb), key, True, '`%s` at %s: parameter (traced to callers)' % (e, c.loc), nontrivial=False)
                    work.append((cb, pl[0]))
                    continue
            # element of a batch of (&[f32], usize), or a sub-slice of it: traced through the batch parameter
            full = flow.render(flow.Origin(cb).of_operand(c.args[l - 1]))
            src = [n for n in ('batch', 'rest', 'data') if util.var_chain_reaches(cb, m.group(2), n)] if (m or re.match(r'^var:(\w+)$', e)) and (m := re.match(r'^(var):(\w+)$', e)) else []
            mb = re.search(r'arg:(batch|data)\b', full)
            if mb or src:
                name = mb.group(1) if mb else src[0]
                pl = [x for x in range(1, cb.argc + 1) if name in cb.varnames.get(x, [])]
                if not pl and src:
                    # `rest` of batch.split_first()
                    pl = [x for x in range(1, cb.argc + 1) if 'batch' in cb.varnames.get(x, []) and util.var_chain_reaches(cb, name, 'batch')]
                if pl:
                    ctx.inst('C17.R2', _fn(cb), key, True, '`%s` at %s: element / part of the batch parameter `%s` (traced to callers)' % (e, c.loc, cb.varnames[pl[0]][0]), nontrivial=False)
                    work.append((cb, pl[0]))
                    continue
            ctx.inst('C17.R2', _fn(cb), key, False, '`%s` at %s (origin %s) reaches the metric kernel without a length/dimension comparison on every path' % (e, c.loc, full[:60]))
    ctx.floor('C17.R2', 'slice hand-offs on the way to the metric kernel', n_chain, 10, 'counted on the pinned tree')
    # graph dimension is the first embedding's length
    nsg = ctx.body('C17.R2', 'FlatGraph::new_single')
    if nsg is not None:
        of = flow.Origin(nsg)
        dims = [flow.render(of.of_operand(st['rv']['ops'][st['rv']['fields'].index('dimension')])) for blk in nsg.blocks for st in blk['s']
                if st.get('rv', {}).get('k') == 'agg' and st['rv'].get('adt', '').endswith('FlatGraph') and 'dimension' in (st['rv'].get('fields') or [])]
        ctx.inst('C17.R2', _fn(nsg), 'the graph dimension is the length of the first embedding', bool(dims) and all(re.match(r'^slice::len\(arg:embedding\)$', d) for d in dims), 'dimension = %s' % dims)
    # backend inserts only behind the index-level check
    ins = [c for c in prog.all_calls() if c.orig and re.search(r'ann_backend::AnnBackend::(insert|sequential_insert_slice|parallel_insert_slice)$', c.orig) and '::ann_backend::' not in c.body.id]
    for c in ins:
        b = c.body
        ov = flow.Origin(b, stop_at_vars=True)
        preds = _preds(b, ov)
        rx = r'cmp\[\+ (?:%s - slice::len\((?:arg|var):\w+\)|slice::len\((?:arg|var):\w+\) - %s) == 0\]$' % (DIM_RX, DIM_RX)
        dimeq = [(i, tg) for i, tg, p in preds if re.match('^' + rx, p)]
        dimne = [(i, tg) for i, tg, p in preds if re.match('^!' + rx, p)]
        tv = flow.ThreadedView(b)
        meth = c.orig.split('::')[-1]
        if meth == 'insert':
            ok = bool(dimeq) and c.bb not in tv.reach([0], avoid_edges=dimeq)
            why = 'every path to the insert passes len == dimension'
        else:
            # batch: a mismatching element leaves with an error; the checking loop runs over `data` and is skipped only when the validate flag is false;
            # every caller in this configuration passes `true`
            ok = bool(dimne) and all(c.bb not in tv.reach([tg]) for i, tg in dimne)
            flag = [l for l in range(1, b.argc + 1) if b.locals[l] == 'bool']
            fl = ''
            if flag:
                fname = b.varnames[flag[0]][0]
                for cb, cbb in cidx.get(b.id, []):
                    cc = cb.call_at(cbb)
                    v = flow.render(flow.Origin(cb).of_operand(cc.args[flag[0] - 1])) if cc is not None and flag[0] - 1 < len(cc.args) else '?'
                    fl += ' %s:%s' % (_fn(cb).split('::')[-1], v)
                    if v not in ('true', '1'):
                        if cb.name.endswith('_trusted'):
                            ctx.exception('C17.R2', cb.short, 'ffi-bench trusted entry: the caller owns per-vector validation (feature-gated, absent from default builds)')
                        else:
                            ok = False
                skip = [(i, tg) for i, tg, p in preds if re.match(r'^!bool\[arg:%s\]$' % fname, p)]
                chk = sorted(set(i for i, _ in dimne))
                of = flow.Origin(b)
                # the element whose length is compared (whatever the loop variable is called) comes from the iteration over `data`
                cmp_vars = sorted(set(v_ for i, tg, p in preds if re.match('^!' + rx, p) for v_ in re.findall(r'slice::len\(var:(\w+)\)', p))) or ['embedding']
                from_data = all(any(re.search(r'::next\(.*slice::iter\(arg:data\)', flow.render(of.of_local(l))) for l in b.var_local(v_)) for v_ in cmp_vars)
                # loop head: the next() over `data` that dominates the check; each iteration passes the check before coming back to it
                heads = [h for h in b.calls if h.callee and re.search(r'Iterator>?::next$', h.callee) and 'slice::iter(arg:data)' in flow.render(of.of_operand(h.args[0])) and all(b.dominates(h.bb, x) for x in chk)]
                each = bool(heads) and all(h.bb not in b.reach([h.to], avoid_blocks=chk) for h in heads)
                ok = ok and bool(skip) and from_data and each and c.bb not in tv.reach([0], avoid_edges=skip, avoid_blocks=[h.bb for h in heads])
            why = 'a mismatching element cannot reach the insert; the loop over `data` is skipped only on !validate; callers pass%s' % fl
        ctx.inst('C17.R2', _fn(b), 'backend %s only behind the dimension check #%d' % (meth, _count(ctx, 'C17.R2', '%s | backend %s only' % (_fn(b), meth))), ok, '%s at %s' % (why, c.loc))
    ctx.floor('C17.R2', 'backend insert call sites outside the backend', len(ins), 3, 'add_vector, batch sequential / parallel')


def r3(ctx, prog):
    ctx.rule('C17.R3', 'closed inventory: the set of unsafe operations of every function of the default-feature library equals a frozen table '
                       '(simd.rs kernels: intrinsics and pointer offsets only); a new unsafe site is unclassified and fails')
    seen_ops = {}
    ffi = set()
    for c in prog.all_calls():
        if c.unsafe_callee and c.body.crate == 'kyrodb_engine' and not c.exp and c.body.kind != 'Promoted':
            if c.body.short.startswith('ffi_ann::'):
                ffi.add(c.body.short.split('::{')[0])
                continue
            seen_ops.setdefault(c.body.short.split('::{')[0], set()).add(c.callee.split('::')[-1])
    n_fn = 0
    for fn, ops in sorted(seen_ops.items()):
        n_fn += 1
        if fn.startswith('simd::'):
            base = fn.replace('_entry', '')
            intr = all(re.match(r'^(_mm\d*_\w+|add)$', o) for o in ops)
            ok = intr or ops <= {base.split('::')[-1]}
            ctx.inst('C17.R3', fn, 'simd: intrinsics / pointer offsets only (entry shims call their kernel)', ok, 'ops: %s' % sorted(ops)[:8])
            continue
        want = INVENTORY.get(fn)
        ctx.inst('C17.R3', fn.replace('ann_backend::', ''), 'unsafe operations = frozen table', want is not None and ops == want,
                 ('unsafe operations %s in a function that is not in the inventory' % sorted(ops)) if want is None else 'ops %s (table %s)%s' % (sorted(ops), sorted(want), (' — ' + REASONS[fn]) if fn in REASONS else ''))
    for fn in INVENTORY:
        if fn not in seen_ops:
            ctx.inst('C17.R3', fn.replace('ann_backend::', ''), 'unsafe operations = frozen table', False, 'function in the inventory has no unsafe operation any more (table out of date: fail closed)')
    for fn, why in REASONS.items():
        ctx.exception('C17.R3', fn, why)
    ctx.floor('C17.R3', 'functions with unsafe operations', n_fn, 40, '17 in ann_backend/hnsw_backend + 24 in simd.rs')
    if ffi:
        ctx.exception('C17.R3', 'ffi_ann::*', 'C ABI of the feature-gated benchmark adapter (ffi-bench, absent from default builds): %d functions turn caller-supplied raw '
                                              'pointers and lengths into slices; their contract is with the C caller, outside the property\'s insert/search sequences' % len(ffi))
    unsafe_fns = sorted(b.short for b in prog.bodies.values() if b.is_unsafe and b.crate == 'kyrodb_engine' and not b.short.startswith('ffi_ann::'))
    ctx.inst('C17.R3', 'unsafe fn declarations', 'the set of unsafe fns is the 8 accessors + 12 kernels', len(unsafe_fns) == 20, '%d: %s' % (len(unsafe_fns), [u.split('::')[-1] for u in unsafe_fns]))
    # entry shims hand their kernel their own slices and the length of the first one
    n_shim = 0
    for b in sorted(prog.bodies.values(), key=lambda x: x.id):
        if b.crate == 'kyrodb_engine' and re.search(r'::simd::\w+_entry$', b.id):
            n_shim += 1
            of = flow.Origin(b)
            ks = [c for c in b.calls if c.callee and re.search(r'::simd::\w+$', c.callee)]
            if not ks and '_scalar_entry' in b.id and not any(c.unsafe_callee for c in b.calls if not c.exp):
                ctx.inst('C17.R3', b.short, 'scalar shim: safe indexed loop, no unsafe operation', True, '', nontrivial=False)
                continue
            ok = len(ks) == 1 and (ks[0].unsafe_callee or '_scalar' in ks[0].callee) and (len(ks[0].args) < 3 or flow.render(of.of_operand(ks[0].args[2])) == 'slice::len(arg:a)') and [flow.render(of.of_operand(a)) for a in ks[0].args[:2]] in (['arg:a', 'arg:b'], ['arg:v'])
            ctx.inst('C17.R3', b.short, 'entry shim passes its own slices and len(a) to its kernel', ok, '%s' % [[flow.render(of.of_operand(a)) for a in k.args] for k in ks])
    ctx.floor('C17.R3', 'kernel entry shims', n_shim, 12, '4 kernels x 3 ISA levels')


LANES = {'_mm_loadu_ps': 4, '_mm_storeu_ps': 4, '_mm256_loadu_ps': 8, '_mm256_storeu_ps': 8, '_mm512_loadu_ps': 16, '_mm512_storeu_ps': 16,
         'vld1q_f32': 4, 'vst1q_f32': 4}


def r4(ctx, prog):
    ctx.rule('C17.R4', 'vector memory accesses of the kernels stay inside the slice: for every load / store intrinsic that takes a raw pointer, the pointer is '
                       'slice.as_ptr().add(off) of a kernel parameter and  off + lanes ≤ len  is proved for every len from the loop ranges (lo..hi, step_by) and '
                       'the floor divisions that define them (linear bounds, kvstatic/bounds.py); stores go to a local array of at least `lanes` elements; any '
                       'other pointer-taking intrinsic is unclassified and fails')
    from kvstatic import bounds
    n_sites = 0
    n_fn = 0
    for b in sorted(prog.bodies.values(), key=lambda x: x.id):
        if b.crate != 'kyrodb_engine' or '::simd::' not in b.id or b.kind == 'Promoted':
            continue
        of = flow.Origin(b)
        sites = []
        for c in b.calls:
            if not c.callee or c.exp:
                continue
            ptrs = [i for i, a in enumerate(c.args) if a.get('k') in ('cp', 'mv') and not a['pl'].get('p') and b.locals[a['pl']['l']].startswith('*')]
            if ptrs and not re.search(r'(const_ptr|mut_ptr|ptr)::\w+$', flow.short(c.callee)):
                sites.append((c, ptrs))
        if not sites:
            continue
        n_fn += 1
        has_len = any('len' in b.varnames.get(l, []) for l in range(1, b.argc + 1))
        for c, ptrs in sites:
            n_sites += 1
            leaf = c.callee.split('::')[-1]
            k = _count(ctx, 'C17.R4', '%s | %s #' % (b.short, leaf))
            W = LANES.get(leaf)
            if W is None or len(ptrs) != 1:
                ctx.inst('C17.R4', b.short, '%s #%d is a classified memory intrinsic' % (leaf, k), False, 'intrinsic %s takes a raw pointer and is not in the lane table at %s' % (leaf, c.loc))
                continue
            e = of.of_operand(c.args[ptrs[0]])
            while e[0] == 'cast':
                e = e[1]
            if 'storeu' in leaf or leaf.startswith('vst'):
                arrs = [int(m.group(1)) for l, ns in b.varnames.items() for m in [re.match(r'^\[f32; (\d+)\]$', b.locals[l])] if m]
                base_ok = e[0] == 'call' and flow.short(e[1]).endswith('as_mut_ptr') and bool(arrs)
                ctx.inst('C17.R4', b.short, '%s #%d writes a local array of ≥ %d lanes' % (leaf, k, W), base_ok and min(arrs) >= W, 'target %s; local arrays %s' % (flow.render(e)[:40], arrs))
                continue
            if not (e[0] == 'call' and flow.short(e[1]).endswith('ptr::add') and len(e[2]) == 2 and e[2][0][0] == 'call' and flow.short(e[2][0][1]) == 'slice::as_ptr' and e[2][0][2][0][0] == 'arg'):
                ctx.inst('C17.R4', b.short, '%s #%d reads slice.as_ptr().add(off) of a parameter' % (leaf, k), False, 'pointer is %s' % flow.render(e)[:100])
                continue
            sl = e[2][0][2][0]
            off = e[2][1]
            if has_len:
                is_len = lambda x: x[0] == 'arg' and x[2] == 'len'
                ln = 'len (= a.len() = b.len(): entry shims R3, wrappers R2)'
            else:
                is_len = lambda x, sl=sl: (x[0] == 'call' and flow.short(x[1]) == 'slice::len' and x[2] and x[2][0] == sl) or (x[0] == 'un' and x[1] == 'PtrMetadata' and x[2] == sl)
                ln = '%s.len()' % sl[2]
            ok, why = bounds.Bounds(is_len).access_ok(off, W)
            ctx.inst('C17.R4', b.short, '%s #%d stays inside the slice' % (leaf, k), ok, '%s[off .. off+%d] with L = %s: %s; off = %s' % (sl[2], W, ln, why, flow.render(off)[:110]))
    # the `len` the bounds are proved against is a.len(): the kernels are entered only through their entry shims (R3 checks what the shims pass)
    for b in sorted(prog.bodies.values(), key=lambda x: x.id):
        if b.crate == 'kyrodb_engine' and '::simd::' in b.id and b.is_unsafe and b.kind in ('Fn', 'AssocFn'):
            cs = sorted(set(c.body.short.split('::{')[0] for c in prog.callers_of(b.id)))
            ctx.inst('C17.R4', b.short, 'kernel entered only through its entry shim', bool(cs) and all(re.match(r'^simd::\w+_entry$', x) for x in cs), 'callers: %s' % cs)
    ctx.floor('C17.R4', 'vector load / store sites', n_sites, 95, '9 x86 kernels + 3 single-slice kernels, counted on the pinned tree')
    ctx.floor('C17.R4', 'kernels with vector memory accesses', n_fn, 12, '4 kernels x 3 ISA levels')


def r5(ctx, prog):
    ctx.rule('C17.R5', 'packed record layout: with c = cap, d = dimension, v = vector_offset_words, r = record_words the only constructor sets v = 1 + c and '
                       'r = ⌈(v + d)/A⌉·A (so r ≥ v + d); the four fields are never written again; data grows only by exactly r words per node (and never '
                       'shrinks, R1); the accessors address id·r (count, record_ptr), id·r + 1 + idx (neighbour, idx < count ≤ c by the clamp) and '
                       'id·r + v with length d (vector). With id < len() = ⌊|data|/r⌋ (R1) this gives id·r + v + d ≤ (id+1)·r ≤ |data| and '
                       'id·r + 1 + idx < (id+1)·r: every unchecked access lies inside the node\'s own record')
    nw = ctx.body('C17.R5', 'PackedLevel0::new')
    if nw is None:
        return
    of = flow.Origin(nw)
    aggs = [st['rv'] for b in prog.bodies.values() if b.crate == 'kyrodb_engine' and b.kind != 'Promoted' for blk in b.blocks for st in blk['s']
            if st.get('rv', {}).get('k') == 'agg' and st['rv'].get('adt', '').endswith('ann_backend::PackedLevel0') and 'record_words' in (st['rv'].get('fields') or [])]
    in_new = [st['rv'] for blk in nw.blocks for st in blk['s'] if st.get('rv', {}).get('k') == 'agg' and st['rv'].get('adt', '').endswith('ann_backend::PackedLevel0')]
    ctx.inst('C17.R5', 'PackedLevel0', 'constructed only in PackedLevel0::new (and by derived Clone)', len(aggs) >= 1 and len(in_new) == 1 and len(aggs) <= 2, 'struct literals: %d (in new: %d)' % (len(aggs), len(in_new)))
    if in_new:
        f = dict(zip(in_new[0]['fields'], [flow.render(of.of_operand(o)) for o in in_new[0]['ops']]))
        C, D = f.get('cap', '?'), f.get('dimension', '?')
        esc = re.escape
        v_ok = bool(re.match(r'^\(1 Add(WithOverflow)? %s\)(\.0)?$' % esc(C), f.get('vector_offset_words', '')))
        m = re.match(r'^\(num::div_ceil\(\((.+) Add(?:WithOverflow)? %s\)(?:\.0)?, (\d+)\) Mul(?:WithOverflow)? (\d+)\)(?:\.0)?$' % esc(D), f.get('record_words', ''))
        r_ok = bool(m) and m.group(1) == f.get('vector_offset_words') and m.group(2) == m.group(3) and int(m.group(2)) >= 1
        pos = bool(re.match(r'^Ord::max\(arg:cap, 1\)$', C)) and bool(re.match(r'^Ord::max\(arg:dimension, 1\)$', D))
        ctx.inst('C17.R5', 'PackedLevel0::new', 'v = 1 + c, r = ⌈(v + d)/A⌉·A, c ≥ 1, d ≥ 1', v_ok and r_ok and pos and f.get('data') == 'Vec::new()',
                 'cap=%s; dimension=%s; vector_offset_words=%s; record_words=%s; data=%s' % (C, D, f.get('vector_offset_words'), f.get('record_words', '')[:90], f.get('data')))
    wr = {}
    for b in prog.bodies.values():
        if b.crate != 'kyrodb_engine' or b.kind == 'Promoted':
            continue
        for fld in ('cap', 'dimension', 'record_words', 'vector_offset_words'):
            if util.assign_blocks(b, r'ann_backend::PackedLevel0\.%s$' % fld):
                wr.setdefault(fld, []).append(b.short)
    ctx.inst('C17.R5', 'PackedLevel0', 'layout fields are never reassigned', not wr, 'assignments: %s' % wr)
    pn = ctx.body('C17.R5', 'PackedLevel0::push_node')
    if pn is not None:
        po = flow.Origin(pn)
        ext = [c for c in pn.calls if c.callee and flow.short(c.callee).endswith('Vec::extend') or (c.callee and re.search(r'Extend.*::extend$', c.callee))]
        grow_all = [c for c in prog.all_calls() if c.callee and c.body.crate == 'kyrodb_engine' and re.search(r'(Vec::(push|extend|extend_from_slice|resize|insert|append)|Extend<.*>::extend|Extend.*::extend)$', flow.short(c.callee)) and c.args and
                    flow.render(flow.Origin(c.body).of_operand(c.args[0])).endswith('PackedLevel0.data')]
        src = flow.render(po.of_operand(ext[0].args[1])) if ext else ''
        ctx.inst('C17.R5', _fn(pn), 'data grows only here, by exactly record_words zeroed words per node',
                 len(grow_all) == 1 and grow_all[0].body is pn and bool(re.match(r'^repeat_n::repeat_n\(0, arg:self→PackedLevel0\.record_words\)$', src)),
                 'growth calls on data: %s; extend source: %s' % (sorted(set(_fn(c.body) for c in grow_all)), src[:70]))
    ln = ctx.body('C17.R5', 'PackedLevel0::len')
    if ln is not None:
        r_ = flow.render(flow.Origin(ln).of_local(0))
        ctx.inst('C17.R5', _fn(ln), 'len() = ⌊|data| / r⌋', r_ == '(Vec::len(arg:self→PackedLevel0.data) Div arg:self→PackedLevel0.record_words)', r_)
    BASE = r'\(arg:dense_id Mul(?:WithOverflow)? arg:self→PackedLevel0\.record_words\)(?:\.0)?'
    SHAPES = [('PackedLevel0::count_unchecked', 'slice::get_unchecked', 1, r'^%s$' % BASE, 'id·r'),
              ('PackedLevel0::neighbor_unchecked', 'slice::get_unchecked', 1, r'^\(\(%s Add(?:WithOverflow)? 1\)(?:\.0)? Add(?:WithOverflow)? arg:idx\)(?:\.0)?$' % BASE, 'id·r + 1 + idx'),
              ('PackedLevel0::vector_at_unchecked', 'const_ptr::add', 1, r'^\(%s Add(?:WithOverflow)? arg:self→PackedLevel0\.vector_offset_words\)(?:\.0)?$' % BASE, 'id·r + v'),
              ('PackedLevel0::record_ptr', 'const_ptr::add', 1, r'^%s$' % BASE, 'id·r')]
    for fn, callee, ai, rx, what in SHAPES:
        b = ctx.body('C17.R5', fn)
        if b is None:
            continue
        bo = flow.Origin(b)
        cs = [c for c in b.calls if c.callee and flow.short(c.callee).endswith(callee) and not c.exp]
        offs = [flow.render(bo.of_operand(c.args[ai])) for c in cs]
        base_ok = all(flow.render(bo.of_operand(c.args[0])) in ('arg:self→PackedLevel0.data', 'Vec::as_ptr(arg:self→PackedLevel0.data)') for c in cs)
        ctx.inst('C17.R5', _fn(b), 'addresses %s in data' % what, len(cs) == 1 and bool(re.match(rx, offs[0])) and base_ok, 'offset(s): %s' % offs)
    pd = ctx.body('C17.R5', 'FlatGraph::prefetch_dense_vector')
    if pd is not None:
        adds = [c for c in pd.calls if c.callee and re.search(r'(const_ptr|mut_ptr)::(add|offset|sub)$', flow.short(c.callee)) and not c.exp]
        wr = [c for c in pd.calls if c.callee and re.search(r'(const_ptr|mut_ptr)::wrapping_add$', flow.short(c.callee))]
        ctx.inst('C17.R5', _fn(pd), 'cache lines beyond the record start are addressed without in-bounds pointer arithmetic', not adds,
                 ('`ptr.add(line * 64)` at %s promises an in-bounds result, but a record is only record_words·4 ≥ 64 bytes: for the last node of a graph with 64-byte records '
                  '(1 + cap + dimension ≤ 16 words, e.g. M = 4, dimension ≤ 7) the 2nd/3rd line lies up to 128 bytes past the end of `data` — undefined behaviour even though a '
                  'prefetch never dereferences (Miri: "in-bounds pointer arithmetic failed … only 64 bytes from the end of the allocation")' % adds[0].loc) if adds else
                 'wrapping_add sites: %d' % len(wr))
    for fn in ('PackedLevel0::vector_at_unchecked', 'PackedLevel0::vector_at'):
        b = ctx.body('C17.R5', fn)
        if b is None:
            continue
        bo = flow.Origin(b)
        fr = [c for c in b.calls if c.callee and c.callee.endswith('from_raw_parts')]
        ln_ = [flow.render(bo.of_operand(c.args[1])) for c in fr]
        ctx.inst('C17.R5', _fn(b), 'the vector view has length d', len(fr) == 1 and ln_ == ['arg:self→PackedLevel0.dimension'], 'from_raw_parts length: %s' % ln_)
    va = ctx.body('C17.R5', 'PackedLevel0::vector_at')
    if va is not None:
        r_ = flow.render(flow.Origin(va).of_local(0))
        ctx.inst('C17.R5', _fn(va), 'checked accessor starts at node_start(id) + v', 'RangeFrom{(PackedLevel0::node_start(arg:self, arg:dense_id) Add' in r_.replace('AddWithOverflow', 'Add') and 'arg:self→PackedLevel0.vector_offset_words' in r_, r_[:160])
    ns = ctx.body('C17.R5', 'PackedLevel0::node_start')
    if ns is not None:
        r_ = flow.render(flow.Origin(ns).of_local(0))
        ctx.inst('C17.R5', _fn(ns), 'node_start = id·r', 'Some{num::saturating_mul(arg:dense_id, arg:self→PackedLevel0.record_words)}' in r_, r_[:140])


IMPLIES = {'avx512f': ['avx2', 'fma', 'f16c'], 'avx2': ['avx'], 'fma': ['avx'], 'f16c': ['avx'], 'avx': ['sse4.2'], 'sse4.2': ['sse4.1'], 'sse4.1': ['ssse3'], 'ssse3': ['sse3'],
           'sse3': ['sse2'], 'sse2': ['sse'], 'neon': []}
BASELINE = {'x86_64': ['sse', 'sse2']}   # guaranteed by the x86_64 ABI


def _closure(fs):
    out = set()
    work = list(fs)
    while work:
        f = work.pop()
        if f in out:
            continue
        out.add(f)
        work += IMPLIES.get(f, [])
    return out


def r6(ctx, prog):
    ctx.rule('C17.R6', 'CPU dispatch: a kernel compiled for a CPU feature set runs only after those features were detected — (a) every intrinsic a kernel calls needs '
                       'only features the kernel itself declares with #[target_feature]; (b) in detect_best_f32_kernels a table of entry shims is built only in '
                       'blocks that every path reaches through the true edges of is_x86_feature_detected! for features whose closure (rustc\'s implication '
                       'table, plus the x86_64 baseline sse/sse2) covers everything the shims\' kernels declare; (c) the table is built nowhere else')
    kern = {}
    for b in sorted(prog.bodies.values(), key=lambda x: x.id):
        if b.crate != 'kyrodb_engine' or '::simd::' not in b.id or b.kind not in ('Fn', 'AssocFn') or not b.target_features:
            continue
        kern[b.id] = b
        have = set(b.target_features)
        bad = sorted(set('%s needs %s' % (flow.short(c.callee), sorted(set(c.callee_features) - have)) for c in b.calls if c.callee and set(c.callee_features) - have))
        ctx.inst('C17.R6', b.short, 'calls only intrinsics covered by its own #[target_feature] set', not bad, '; '.join(bad)[:200] if bad else 'declares %s' % sorted(set(b.target_features) - set(x for f in b.target_features for x in _closure(IMPLIES.get(f, [])))))
    ctx.floor('C17.R6', 'kernels with #[target_feature]', len(kern), 12, '4 kernels x 3 ISA levels')
    # safe functions must not call feature-gated kernels except the entry shims (checked in R4) — and shims carry no features themselves
    det = ctx.body('C17.R6', 'simd::detect_best_f32_kernels')
    if det is None:
        return
    do = flow.Origin(det)
    preds = _preds(det, do)
    det_edges = {}
    for i, tg, p in preds:
        m = re.match(r'^bool\[__is_feature_detected::(\w+)\(\)\]$', p)
        if m:
            det_edges.setdefault(m.group(1).replace('_', '.') if m.group(1).startswith('sse4') else m.group(1), []).append((i, tg))
            # the `cfg!(target_feature = X) ||` half of the macro: a constant-true switch whose false edge leads straight to this detection call
            for i2, tg2, p2 in preds:
                if p2 == 'bool[1]' and i in (det.reach([x for x in det.succ(i2) if x != tg2], avoid_blocks=[]) | set(det.succ(i2))) and tg2 == tg:
                    det_edges[m.group(1)].append((i2, tg2))
    n_tab = 0
    for i, blk in enumerate(det.blocks):
        for st in blk['s']:
            rv = st.get('rv')
            if not (rv and rv['k'] == 'agg' and rv.get('adt', '').endswith('simd::ResolvedF32Kernels')):
                continue
            n_tab += 1
            shims = [flow.render(do.of_operand(o)) for o in rv['ops']]
            need = set()
            for sname in shims:
                sb = prog.resolve_local(sname.replace('fn:', ''))
                if sb is None:
                    need.add('?unresolved shim %s' % sname[-30:])
                    continue
                for c in sb.calls:
                    kb = prog.resolve_local(c.callee) if c.callee else None
                    if kb is not None and kb.id in kern:
                        need |= set(kb.target_features)
            must = set()
            # edges of constant switches that cannot be taken (`cfg!(target_feature = ..)` evaluated at compile time)
            dead = [(i2, tg2) for i2, tg2, p2 in preds if p2 in ('bool[0]', '!bool[1]')]
            for f, es in det_edges.items():
                if i not in (det.reach([0], avoid_edges=es + dead) | {0}):
                    must.add(f)
            have = _closure(must | set(BASELINE['x86_64']))
            level = sorted(set(re.search(r'_(avx512|avx2|sse2|scalar|neon)_entry$', x).group(1) for x in shims if re.search(r'_(avx512|avx2|sse2|scalar|neon)_entry$', x)))
            ctx.inst('C17.R6', 'simd::detect_best_f32_kernels', 'table %s is built only after its kernels\' features were detected' % level, not (need - have) and len(level) == 1,
                     'kernels declare %s; every path detected %s' % (sorted(need - set(BASELINE['x86_64']) - set(x for f in need for x in _closure(IMPLIES.get(f, [])))) or 'nothing beyond the baseline', sorted(must)))
    ctx.floor('C17.R6', 'kernel tables in detect_best_f32_kernels', n_tab, 4, 'avx512, avx2, sse2, scalar')
    others = sorted(set(b.short.split('::{')[0] for b in prog.bodies.values() if b.crate == 'kyrodb_engine' and b.kind != 'Promoted' and b is not det for blk in b.blocks for st in blk['s']
                        if st.get('rv', {}).get('k') == 'agg' and st['rv'].get('adt', '').endswith('simd::ResolvedF32Kernels')))
    ctx.inst('C17.R6', 'simd::ResolvedF32Kernels', 'built only by detect_best_f32_kernels', not [o for o in others if 'Clone' not in o], 'other builders: %s' % others)
    once = [c for c in prog.callers_of('simd::detect_best_f32_kernels')]
    ctx.inst('C17.R6', 'simd::detect_best_f32_kernels', 'called only to initialise the process-wide table', sorted(set(c.body.short.split('::{')[0] for c in once)) == ['simd::resolved_f32_kernels'] or all('resolved_f32_kernels' in c.body.id or 'OnceLock' in (c.body.id) for c in once) or not once,
             'callers: %s' % sorted(set(c.body.short.split('::{')[0] for c in once)))


def run(ctx, prog):
    ctx.not_decided = ['value arithmetic of the kernels other than the bounds of their vector loads (reductions, accumulators)', 'the lemma that turns the checked layout shapes of PackedLevel0 into the bound is a fixed pen-and-paper argument (rule text of R5), not re-derived per run',
                       'use-after-free (excluded by ownership, not by this check)', 'ffi-bench trusted entry points (thorough tier, named exception)']
    ctx.assumptions = list(ctx.assumptions) + [
        'level0.len() == dense_to_origin.len() outside connect_with_layer_neighbors_with_scratch (pairing checked structurally), so a checked accessor returning normally validates its id',
        'temporaries are evaluated in the expression that uses them (a copy of an id variable is not held across a re-assignment of that variable)',
        'HnswVectorIndex.dimension equals the graph dimension because every backend insert is behind the index-level dimension check (R2) and the graph takes the first embedding\'s length']
    r1(ctx, prog)
    r2(ctx, prog)
    r3(ctx, prog)
    r4(ctx, prog)
    r5(ctx, prog)
    r6(ctx, prog)
    ctx.stat('functions_analysed', len(set(i['key'].split(' | ')[1] for i in ctx.instances)))
