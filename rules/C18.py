"""C18 — unsafe durability and exposure settings are refused outside benchmark mode (whole property).

KyroDbConfig::validate is a decision procedure over discrete settings: its accept/reject behaviour is the
shape of its CFG.  The check explores the jump-threaded CFG path-sensitively over 13 named boolean atoms
(environment comparisons, unsafe-value tests) and requires that on EVERY path to an Ok return the recorded
atom values imply each row of the property's table for all values of the atoms the path did not test.
"""
import itertools
import re

from kvstatic import flow, pathsens, rt

EXPLANATION = (
    'Guard-dominance table over KyroDbConfig::validate decided by path-sensitive exploration of its promoted MIR '
    '(materialised booleans jump-threaded, anyhow::ensure!/bail! recognised as Err exits): for every path to an '
    'Ok return the conjunction of recognised edge predicates must imply every row '
    '"accepted ⇒ exemption ∨ ¬unsafe-value" for all completions of untested atoms. The environment string must '
    'originate from trim()+to_ascii_lowercase() of environment.environment_type. R2: KyroDbConfig::load returns '
    'Ok only past the success edge of validate(); the server\'s main validates after the CLI overrides, before '
    'anything is opened, never assigns config.* afterwards and reads no command-line / environment input afterwards. R4: '
    'the engine\'s FsyncPolicy::Never is built only on the edge fsync_policy = None of the validated configuration; snapshot_interval and '
    'recovery_mode of the TieredEngineConfig are the validated settings.')

MANIFEST = {
    'text': 'Decides the whole property statically: KyroDbConfig::validate is a loop-free decision procedure, so its '
            'accept/reject behaviour is the shape of its CFG. Every path to an Ok return is explored over a 13-atom '
            'predicate abstraction and must imply all 11 rows of the property\'s table for every value of untested '
            'atoms; load() and the server\'s main are checked to validate before anything is opened and to take no input afterwards; the '
            'mapping from the validated settings to the engine configuration turns fsync off only for the refused value (R4).',
    'design_ref': 'DESIGN.md §4.18',
    'note': 'Trusted base: rustc MIR, the jump-threading of materialised booleans, the recognition of bail!/ensure! '
            'exits, the guard normal forms. is_loopback_host is an uninterpreted predicate. Settings the table does '
            'not name are unconstrained (explored on both edges).',
    'technique': 'path-sensitive predicate abstraction over the MIR CFG of validate + dominance checks',
}

ENV_ORIGIN = r'str::to_ascii_lowercase\(str::trim\((?:arg:self|_\d+)→KyroDbConfig\.environment→EnvironmentConfig\.environment_type\)\)'


def env_atom(name, lit):
    return pathsens.Atom(name, r'^eq\["%s", %s\]$' % (lit, ENV_ORIGIN))


ATOMS = [
    env_atom('bench', 'benchmark'),
    env_atom('pilot', 'pilot'),
    env_atom('prod', 'production'),
    pathsens.VariantAtom('learned', r'KyroDbConfig\.cache→CacheConfig\.strategy$', 'Learned'),
    pathsens.VariantAtom('fsync_none', r'KyroDbConfig\.persistence→PersistenceConfig\.fsync_policy$', 'None'),
    pathsens.Atom('snap0', r'^cmp\[\+ arg:self→KyroDbConfig\.persistence→PersistenceConfig\.snapshot_interval_mutations == 0\]$'),
    pathsens.VariantAtom('best_effort', r'KyroDbConfig\.persistence→PersistenceConfig\.recovery_mode$', 'BestEffort'),
    pathsens.Atom('auth', r'^bool\[arg:self→KyroDbConfig\.auth→AuthConfig\.enabled\]$'),
    pathsens.Atom('ratelimit', r'^bool\[arg:self→KyroDbConfig\.rate_limit→RateLimitConfig\.enabled\]$'),
    pathsens.Atom('obs_disabled', r'^eq\[arg:self→KyroDbConfig\.server→ServerConfig\.observability_auth, config::ObservabilityAuthMode::Disabled\{\}\]$'),
    pathsens.Atom('fresh_start', r'^bool\[arg:self→KyroDbConfig\.persistence→PersistenceConfig\.allow_fresh_start_on_recovery_failure\]$'),
    pathsens.Atom('tls', r'^bool\[arg:self→KyroDbConfig\.server→ServerConfig\.tls→TlsConfig\.enabled\]$'),
    pathsens.Atom('loopback', r'^bool\[config::is_loopback_host\(arg:self→KyroDbConfig\.server→ServerConfig\.host\)\]$'),
]
# snapshot_interval == 0 may also be written `>= 1` negated etc.: the integer normal form of `x == 0` is fixed,
# `x < 1` / `x <= 0` normalise to 'x <= 0'
ATOMS.append(pathsens.Atom('snap0', r'^cmp\[\+ arg:self→KyroDbConfig\.persistence→PersistenceConfig\.snapshot_interval_mutations <= 0\]$'))

# rows: (id, text, formula over a full assignment dict) — formula must hold on every accepted configuration
ROWS = [
    ('env-known', 'accepted ⇒ environment ∈ {production, pilot, benchmark}',
     lambda a: a['bench'] or a['pilot'] or a['prod']),
    ('nonbench-learned', 'accepted ∧ env≠benchmark ⇒ cache.strategy = Learned', lambda a: a['bench'] or a['learned']),
    ('nonbench-fsync', 'accepted ∧ env≠benchmark ⇒ fsync_policy ≠ None', lambda a: a['bench'] or not a['fsync_none']),
    ('nonbench-snapshots', 'accepted ∧ env≠benchmark ⇒ snapshot_interval_mutations ≠ 0', lambda a: a['bench'] or not a['snap0']),
    ('nonbench-strict', 'accepted ∧ env≠benchmark ⇒ recovery_mode ≠ BestEffort', lambda a: a['bench'] or not a['best_effort']),
    ('pilot-auth', 'accepted ∧ env=pilot ⇒ auth.enabled', lambda a: (not a['pilot']) or a['auth']),
    ('pilot-ratelimit', 'accepted ∧ env=pilot ⇒ rate_limit.enabled', lambda a: (not a['pilot']) or a['ratelimit']),
    ('pilot-observability', 'accepted ∧ env=pilot ⇒ observability_auth ≠ Disabled', lambda a: (not a['pilot']) or not a['obs_disabled']),
    ('pilot-no-fresh-start', 'accepted ∧ env=pilot ⇒ ¬allow_fresh_start_on_recovery_failure', lambda a: (not a['pilot']) or not a['fresh_start']),
    ('pilot-tls-or-loopback', 'accepted ∧ env=pilot ⇒ tls.enabled ∨ loopback(host)', lambda a: (not a['pilot']) or a['tls'] or a['loopback']),
    ('prod-nonloopback-auth', 'accepted ∧ env=production ∧ ¬loopback(host) ⇒ auth.enabled', lambda a: (not a['prod']) or a['loopback'] or a['auth']),
]
NAMES = ['bench', 'pilot', 'prod', 'learned', 'fsync_none', 'snap0', 'best_effort', 'auth', 'ratelimit',
         'obs_disabled', 'fresh_start', 'tls', 'loopback']
ENV = ('bench', 'pilot', 'prod')


def _completions(assign):
    """All total assignments consistent with the partial one; the three environment atoms are mutually
    exclusive (one string cannot equal two different literals)."""
    free = [n for n in NAMES if n not in assign and n not in ENV]
    env_opts = []
    for choice in (None,) + ENV:
        e = {n: (n == choice) for n in ENV}
        if all(assign.get(n, e[n]) == e[n] for n in ENV):
            env_opts.append(e)
    for e in env_opts:
        for vals in itertools.product((False, True), repeat=len(free)):
            a = dict(assign)
            a.update(e)
            a.update(zip(free, vals))
            yield a


def run(ctx, prog):
    ctx.rule('C18.R1', 'every path of KyroDbConfig::validate to an Ok return implies each row of the guard table '
                       '(no accepted path avoids a required guard except through its exemption edge)')
    ctx.rule('C18.R2', 'however the values arrive: KyroDbConfig::load returns Ok only past validate()\'s success edge; '
                       'the server\'s main calls validate() after the CLI overrides, before anything is opened, and '
                       'does not assign config.* afterwards; past validate() it reads neither the parsed command line nor the process '
                       'environment (an override applied to a value DERIVED from config reaches the engine unvalidated)')
    ctx.not_decided = ['that the three accepted spellings of is_loopback_host are exactly the loopback addresses (the rule R3 decides only that the classifier is a closed '
                       'table over the WHOLE host)', 'serde/env-var parsing of individual settings']
    ctx.rule('C18.R3', 'the bind-host classifier is a closed table over the whole host: every string test in is_loopback_host has the fully normalised host as its subject '
                       '(trim → strip one pair of brackets → cut the %zone → trim → lower-case) and an accepted constant from the table {== "::1", == "localhost", '
                       'prefix "127.", prefix "::ffff:127."}; a test on a PART of the host (a split group, a suffix, a substring) or a new spelling fails — it classifies '
                       'routable addresses such as [fd00::127.0.0.1] as loopback, which switches off the auth and TLS guards of R1')
    lb = ctx.body('C18.R3', 'config::is_loopback_host')
    if lb is not None:
        ov3 = flow.Origin(lb, stop_at_vars=True)
        nv = lb.var_local('normalized')
        n_o = flow.render(flow.Origin(lb).of_local(nv[0])) if nv else '?'
        whole = bool(re.match(r"^str::to_ascii_lowercase\(str::trim\(Option::unwrap_or\(<iter::Split<'a, P> as iterator::Iterator>::next\(str::split\(Option::unwrap_or\(Option::and_then\("
                              r"str::strip_prefix\(str::trim\(arg:host\), 91\), closure:[^)]*\), str::trim\(arg:host\)\), 37\)\), Option::unwrap_or\(.*\)\)\)\)$", n_o))
        ctx.inst('C18.R3', lb.short, 'the tested subject is the whole host, normalised', whole, 'normalized = %s' % n_o[:260])
        ACCEPT = {('eq', '"::1"'), ('eq', '"localhost"'), ('starts_with', '"127."'), ('starts_with', '"::ffff:127."')}
        tests = []
        for c in lb.calls:
            sh = flow.short(c.callee or '')
            kind = None
            if re.search(r'PartialEq<.*>>::eq$|PartialEq.*::eq$', sh):
                kind = 'eq'
            elif re.search(r'str::(starts_with|ends_with|contains|find|rfind|matches|eq_ignore_ascii_case)$', sh):
                kind = sh.split('::')[-1]
            if kind:
                tests.append((kind, [flow.render(ov3.of_operand(a)) for a in c.args], c.loc))
        bad = [t for t in tests if not (t[1] and t[1][0] == 'var:normalized' and (t[0], t[1][1] if len(t[1]) > 1 else '') in ACCEPT)]
        ctx.inst('C18.R3', lb.short, 'every string test is a table entry applied to the whole host', len(tests) >= 3 and not bad,
                 ('test %s(%s) at %s is not in the table or looks at a part of the host' % (bad[0][0], ', '.join(x[:60] for x in bad[0][1]), bad[0][2])) if bad else
                 '%d tests: %s' % (len(tests), [(t[0], t[1][1]) for t in tests]))
        r0 = flow.render(ov3.of_local(0))
        ctx.inst('C18.R3', lb.short, 'the verdict is the disjunction of those tests (false for an empty host)', bool(re.match(r'^phi\(0 \| 1 \| str::starts_with\(var:normalized, "[^"]*"\)\)$', r0)), 'returns %s' % r0[:160])
    v = ctx.body('C18.R1', 'KyroDbConfig::validate')
    terminals, seen = pathsens.explore(v, ATOMS)
    oks = [t for t in terminals if not t[1]]
    ctx.stat('validate_blocks', len(v.blocks))
    ctx.stat('validate_terminal_states', len(terminals))
    ctx.stat('validate_ok_states', len(oks))
    ctx.stat('functions_analysed', 3)
    # anchors: every atom must be recognised on at least one switch
    for n in NAMES:
        if not seen.get(n):
            ctx.inst('C18.R1', 'KyroDbConfig::validate', 'atom ' + n, False,
                     'anchor missing: no switch of validate tests atom %r in its normal form '
                     '(guard removed, rewritten beyond the recognised idioms, or its operand no longer comes from the '
                     'normalised environment string / the named field)' % n, nontrivial=False)
    ctx.floor('C18.R1', 'Ok terminal states of validate', len(oks), 1, 'validate must have an accepting path')
    ctx.floor('C18.R1', 'recognised atom switches', sum(len(s) for s in seen.values()), 20,
              '23 on the pinned tree (13 atoms, several tested more than once)')
    for rid, text, f in ROWS:
        bad = None
        checked = 0
        for (rb, via_err, assign, path) in oks:
            for a in _completions(assign):
                checked += 1
                if not f(a):
                    bad = (assign, a, path)
                    break
            if bad:
                break
        if bad:
            assign, a, path = bad
            ctx.inst('C18.R1', 'KyroDbConfig::validate', 'row ' + rid, False,
                     'an accepting path does not imply: %s\n  atoms fixed on the path: %s\n  violating configuration: %s\n  path: %s'
                     % (text, assign, {k: v_ for k, v_ in a.items() if not f.__code__ or True},
                        ' → '.join(rt.path_witness(v, _compress(v, path))[:40])),
                     witness=rt.path_witness(v, path))
        else:
            ctx.inst('C18.R1', 'KyroDbConfig::validate', 'row ' + rid, True,
                     '%s — implied on all %d accepting abstract states (%d completions checked)' % (text, len(oks), checked))

    # ---- R2: load
    load = ctx.body('C18.R2', 'KyroDbConfig::load')
    vc = load.calls_to('KyroDbConfig::validate')
    if not vc:
        ctx.inst('C18.R2', 'KyroDbConfig::load', 'validate before Ok', False, 'load() does not call validate()')
    else:
        succ = []
        for c in vc:
            succ += flow.success_edges(load, c)
        errs = flow.err_blocks(load)
        # Ok return reachable without crossing a validate success edge?
        r = load.reach([0], avoid_blocks=errs, avoid_edges=succ)
        # returns reached must only be via paths that crossed success edge: remove success edges, any return reachable = bad
        bad = [x for x in load.return_blocks() if x in r]
        ctx.inst('C18.R2', 'KyroDbConfig::load', 'validate before Ok', not bad,
                 'Ok return reachable without passing the success edge of validate()' if bad else
                 'every Ok return is dominated by the success edge of validate() (%d call site)' % len(vc),
                 witness=rt.path_witness(load, rt.find_path(load, [0], bad, errs, succ) or []) if bad else None)

    # ---- R2: server main
    fam = [b for b in prog.family(ctx.body('C18.R2', 'kyrodb_server::main'))]
    mb = [b for b in fam if b.calls_to('KyroDbConfig::validate')]
    if not mb:
        ctx.inst('C18.R2', 'kyrodb_server::main', 'validate called', False, 'main never calls KyroDbConfig::validate')
        return
    m = mb[0]
    vcalls = m.calls_to('KyroDbConfig::validate')
    succ = []
    for c in vcalls:
        succ += flow.success_edges(m, c)
    reach_wo = m.reach([0], avoid_edges=succ)
    OPENERS = ['AuthManager::load_from_file', 'TenantIdMapper::load_or_create', 'TieredEngine::new',
               'TieredEngine::recover', 'TcpListener::bind', 'Server::builder', 'tonic::transport::server::Server::builder',
               'TieredEngine::recover_with_mode', 're:TieredEngine::recover', 're:tokio::net::.*TcpListener::bind']
    n_open = 0
    for c in m.calls:
        if c.callee and c.is_(*OPENERS):
            n_open += 1
            ok = c.bb not in reach_wo
            ctx.inst('C18.R2', 'kyrodb_server::main', 'validate ≺ ' + flow.short(c.callee), ok,
                     ('%s at %s is reachable without passing the success edge of config.validate()' % (c.callee, c.loc))
                     if not ok else '%s at %s dominated by validate() success' % (flow.short(c.callee), c.loc),
                     witness=rt.path_witness(m, rt.find_path(m, [0], [c.bb], (), succ) or []) if not ok else None)
    # openers inside closures / spawned tasks created by main: the creation site must be dominated as well
    by_id = {b.id: b for b in fam}
    for b in fam:
        if b.id == m.id:
            continue
        ops = [c for c in b.calls if c.callee and c.is_(*OPENERS)]
        if not ops:
            continue
        # climb to the closure created directly in m
        cur = b
        while cur is not None and cur.parent != m.id:
            cur = by_id.get(cur.parent)
        if cur is None:
            # created outside m's body (e.g. the outer shell of #[tokio::main]) — m itself is nested there
            continue
        sites = [i for i, blk in enumerate(m.blocks) for s_ in blk['s']
                 if s_.get('rv', {}).get('k') == 'agg' and s_['rv'].get('def') == cur.id]
        for c in ops:
            n_open += 1
            ok = bool(sites) and all(i not in reach_wo for i in sites)
            ctx.inst('C18.R2', 'kyrodb_server::main', 'validate ≺ %s (in %s)' % (flow.short(c.callee), cur.short.split('::')[-1]), ok,
                     '%s at %s runs in a task created at %s, %s' % (flow.short(c.callee), c.loc,
                                                                   [m.loc_of(i) for i in sites],
                                                                   'dominated by validate() success' if ok else
                                                                   'which is reachable without passing validate()'))
    ctx.floor('C18.R2', 'calls in main that open something', n_open, 5, '5 on the pinned tree: load_from_file, '
              'load_or_create, TieredEngine::new, TieredEngine::recover, Server::builder (+ TcpListener::bind in the HTTP task)')
    # no assignment to config.* after validate
    cfg_locals = set(m.var_local('config'))
    after = m.reach([e[1] for e in succ])
    writes = []
    for bb in sorted(after):
        for k, s in enumerate(m.blocks[bb]['s']):
            if 'rv' in s and s['pl']['l'] in cfg_locals and s['pl'].get('p'):
                writes.append((bb, s.get('loc')))
        t = m.blocks[bb]['t']
        if t['k'] == 'call':
            c = m.call_at(bb)
            # &mut config passed to a callee after validation
            for a in c.args:
                pass
    # mutable borrows of config after validate
    mut_borrows = []
    for bb in sorted(after):
        for s in m.blocks[bb]['s']:
            rv = s.get('rv')
            if rv and rv['k'] == 'ref' and rv.get('mut') and rv['pl']['l'] in cfg_locals:
                mut_borrows.append((bb, s.get('loc')))
    if not cfg_locals:
        ctx.missing('C18.R2', 'local variable `config` in main')
    ctx.inst('C18.R2', 'kyrodb_server::main', 'no config mutation after validate', not writes and not mut_borrows,
             ('config is modified after validation at %s' % [w[1] for w in writes + mut_borrows]) if (writes or mut_borrows)
             else 'no assignment to / mutable borrow of `config` in the %d blocks after validate()' % len(after))
    # CLI overrides happen before validate: every assignment to config.* is in a block that reaches validate
    pre_writes = 0
    for bb in m.live_blocks():
        for s in m.blocks[bb]['s']:
            if 'rv' in s and s['pl']['l'] in cfg_locals and s['pl'].get('p'):
                pre_writes += 1
    ctx.stat('config_field_assignments_in_main', pre_writes)
    # every input is merged into `config` BEFORE validate: past its success edge main reads neither the parsed command line (clap also fills it from
    # environment variables) nor the process environment. A value taken from there afterwards (an `--wal-fsync` override applied to the engine configuration)
    # reaches the engine without ever having been in front of the validator.
    cli_locals = set(l for l, t in enumerate(m.locals) if re.search(r'(^|[ &(<])kyrodb_server::CliArgs\b', t))
    if not cli_locals:
        ctx.missing('C18.R2', 'the parsed command line (a local of type CliArgs) in main')
    late = []
    for bb in sorted(after):
        blk = m.blocks[bb]
        for s in blk['s']:
            if 'rv' in s and _mentions(s['rv'], cli_locals):
                late.append('command line read at %s' % s.get('loc', '?'))
        t = blk['t']
        if t['k'] == 'call' and any(a.get('k') in ('mv', 'cp') and a['pl']['l'] in cli_locals for a in t.get('args', [])):
            late.append('command line read at %s' % t.get('loc', '?'))
        if t['k'] == 'switch' and t['on'].get('k') in ('mv', 'cp') and t['on']['pl']['l'] in cli_locals:
            late.append('command line read at %s' % t.get('loc', '?'))
    for b in fam:
        for c in b.calls:
            if c.callee and re.search(r'^std::env::(var|var_os|vars|vars_os|args|args_os)$', c.callee):
                if b.id != m.id or c.bb in after:
                    late.append('%s at %s' % (flow.short(c.callee), c.loc))
    ctx.inst('C18.R2', 'kyrodb_server::main', 'no command-line or environment input is read after validate', bool(cli_locals) and not late,
             ('%s: the value bypasses KyroDbConfig::validate' % sorted(set(late))[:4]) if late else
             'CliArgs local(s) %s are not read in the %d blocks after validate(); no std::env read in main' % (sorted(cli_locals), len(after)))
    engine_gets_validated(ctx, prog, fam, m, vcalls, succ)


def _mentions(rv, locals_):
    k = rv['k']
    ops = []
    if k in ('use', 'repeat', 'cast', 'un'):
        ops = [rv['a']]
    elif k == 'bin':
        ops = [rv['a'], rv['b']]
    elif k == 'agg':
        ops = rv['ops']
    elif k in ('ref', 'rawptr', 'discr', 'len'):
        return rv.get('pl', {}).get('l') in locals_
    return any(o.get('k') in ('mv', 'cp') and o['pl']['l'] in locals_ for o in ops)


def engine_gets_validated(ctx, prog, fam, m, vcalls, succ):
    """C18.R4: the table of R1 names unsafe VALUES of the configuration; what runs is what main makes of them."""
    ctx.rule('C18.R4', 'the engine runs what was validated: main builds the engine\'s "never fsync" policy only on the edge on which the validated '
                       'persistence.fsync_policy is None — the one value the row nonbench-fsync refuses — so no other value of the setting (a new variant, a '
                       'wildcard arm) and no other input (a flag read next to the configuration) turns fsync off; the TieredEngineConfig handed to the engine '
                       'takes fsync_policy from that mapping and snapshot_interval / recovery_mode from the validated configuration itself')
    ov = flow.Origin(m, stop_at_vars=True)
    of = flow.Origin(m)
    cfg = flow.render(ov.of_operand(vcalls[0].args[0])) if vcalls and vcalls[0].args else ''
    if not re.match(r'^(var|arg):\w+$', cfg):
        ctx.missing('C18.R4', 'the configuration variable handed to validate() in main (got %r)' % cfg)
        return
    cq = re.escape(cfg)
    none_e, other_e = [], []
    for j, blk in enumerate(m.blocks):
        if blk['t']['k'] != 'switch':
            continue
        for tg, p in flow.switch_edge_predicates(m, j, ov):
            mm = re.match(r'^variant\(%s→KyroDbConfig\.persistence→PersistenceConfig\.fsync_policy\) (= (\w+)|∉ .*)$' % cq, p)
            if mm:
                (none_e if mm.group(2) == 'None' else other_e).append((j, tg, mm.group(1)))
    r0 = m.reach([0], avoid_edges=[(j, tg) for j, tg, _ in none_e])
    n_never = 0
    for b in sorted(prog.bodies.values(), key=lambda x: x.id):
        if b.crate != 'kyrodb_server' or b.kind == 'Promoted':
            continue
        k = 0
        for i in sorted(b.live_blocks()):
            for s in b.blocks[i]['s']:
                rv = s.get('rv')
                if not (rv and rv['k'] == 'agg' and rv.get('ak') == 'adt' and re.search(r'persistence::FsyncPolicy$', rv.get('adt', '')) and rv.get('variant') == 'Never'):
                    continue
                n_never += 1
                if b.id != m.id:
                    ok, why = False, 'built at %s, outside the function that validated the configuration' % s.get('loc', '?')
                else:
                    ok = bool(none_e) and i not in r0
                    # name the arm only when the construction sits in it (not when it merely follows the whole match)
                    common = m.reach([tg for j, tg, _ in none_e]) if none_e else set()
                    via = [w for j, tg, w in other_e if i not in common and (i == tg or i in m.reach([tg], avoid_blocks=common))]
                    why = 'only on the edge fsync_policy = None of the validated configuration' if ok else \
                        'FsyncPolicy::Never at %s is reachable without the validated fsync_policy being None%s: a configuration that validate() accepts outside ' \
                        'benchmark mode runs without fsync' % (s.get('loc', '?'), (' (edge %s)' % via[0]) if via else '')
                ctx.inst('C18.R4', b.short.split('::{')[0], 'engine policy Never #%d only for the refused value fsync_policy = None' % k, ok, why)
                k += 1
    ctx.floor('C18.R4', 'constructions of the engine policy FsyncPolicy::Never in the server', n_never, 1, 'the None arm of the mapping in main')
    n_cfg = 0
    for b in fam:
        for i in sorted(b.live_blocks()):
            for s in b.blocks[i]['s']:
                rv = s.get('rv')
                if not (rv and rv['k'] == 'agg' and rv.get('adt', '').endswith('TieredEngineConfig') and 'fsync_policy' in (rv.get('fields') or [])):
                    continue
                n_cfg += 1
                f = rv['fields']
                if b.id != m.id:
                    ctx.inst('C18.R4', b.short.split('::{')[0], 'engine configuration built where the configuration was validated', False, 'TieredEngineConfig built at %s' % s.get('loc', '?'))
                    continue
                alts = flow.top_alternatives(of.of_operand(rv['ops'][f.index('fsync_policy')]))
                bad = [flow.render(a)[:80] for a in alts if not (a[0] == 'agg' and re.match(r'^persistence::FsyncPolicy::\w+$', a[1]))]
                ctx.inst('C18.R4', 'kyrodb_server::main', 'engine fsync_policy is one of the policies built by the mapping', not bad and bool(alts),
                         ('fsync_policy can be %s: not a policy constructed (and guarded) in main' % bad[:2]) if bad else 'alternatives: %s' % sorted(set(a[1] for a in alts)))
                rm = flow.render(ov.of_operand(rv['ops'][f.index('recovery_mode')])) if 'recovery_mode' in f else '?'
                ctx.inst('C18.R4', 'kyrodb_server::main', 'engine recovery_mode is the validated setting', rm == cfg + '→KyroDbConfig.persistence→PersistenceConfig.recovery_mode',
                         'recovery_mode = %s' % rm[:140])
                si = flow.render(ov.of_operand(rv['ops'][f.index('snapshot_interval')])) if 'snapshot_interval' in f else '?'
                ctx.inst('C18.R4', 'kyrodb_server::main', 'engine snapshot_interval is the validated setting',
                         si in ('KyroDbConfig::snapshot_interval_mutations(%s)' % cfg, cfg + '→KyroDbConfig.persistence→PersistenceConfig.snapshot_interval_mutations'),
                         'snapshot_interval = %s' % si[:140])
    ctx.floor('C18.R4', 'TieredEngineConfig constructions in main', n_cfg, 1, 'one')
    acc = prog.body('KyroDbConfig::snapshot_interval_mutations')
    if acc is not None:
        r = flow.render(flow.Origin(acc).of_local(0))
        ctx.inst('C18.R4', acc.short, 'the accessor returns the validated field (0 stays 0)',
                 bool(re.match(r'^Result::unwrap_or\(\S*try_from\(arg:self→KyroDbConfig\.persistence→PersistenceConfig\.snapshot_interval_mutations\), \d+\)$', r)) or
                 r == 'arg:self→KyroDbConfig.persistence→PersistenceConfig.snapshot_interval_mutations', 'returns %s' % r[:160])


def _compress(body, path):
    return [b for b in path if body.blocks[b]['t']['k'] in ('switch', 'return', 'call')]
