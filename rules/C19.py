"""C19 — rate limits bound admitted traffic.

Decided statically: every write of the token count is capped at capacity (or a guarded −1), the limiter consumes
tenant→global with a refund on global refusal, and the limiter is on the path of every tenant-scoped RPC and of every
streamed item; a live bucket's state changes only through the bucket's own operations (R4), the rate enforced is the one declared
with the key (R5) and a unary request is charged once (R6).  The numeric rate bound itself (floating-point refill over real time)
is not decided.
"""
import re

from kvstatic import flow, pathsens, rt, util, server
from kvstatic.locks import LockModel

MANIFEST = {
    'text': 'Decides three structural necessary conditions of the rate bound: (1) the closed set of writes to '
            'TokenBucket.tokens — each is a construction at capacity, a −1 under tokens ≥ 1, or min(_, capacity); '
            '(2) the shape of RateLimiter::check_limit on both bucket paths: admitted only past tenant and global consumption, '
            'global consumed only after the tenant passed, tenant refunded when the global limit refuses, no map lock held '
            'while a bucket is consumed; (3) every tenant-scoped RPC and every streamed item passes enforce_rate_limit before '
            'touching the engine; (4) no whole-bucket store / escaping &mut TokenBucket / replacing write of the bucket map (a registered bucket is '
            'reset only by time); (5) the TenantContext carries the validated key\'s own max_qps unless that is 0; (6) at most one limiter charge on any '
            'path of a unary handler. The inequality over time is not decided.',
    'design_ref': 'DESIGN.md §4.19',
    'note': 'Trusted base: rustc MIR, path-sensitive exploration of check_limit with marked consumption edges, dominance over '
            'handler CFGs (per-item limiting is checked as "no two executions of an engine sink without a limiter success between").',
    'technique': 'closed write inventory + path-sensitive shape check + dominance / cycle-cut on MIR',
}

EXPLANATION = ('GUARD/WMC/ORD/INV rules of DESIGN §4.19. check_limit is explored path-sensitively with marks on the success and '
               'failure edges of the tenant and global try_consume calls, the refund call and the constant returned.')

TENANT_RPCS = ['insert', 'bulk_insert', 'bulk_load_hnsw', 'query', 'delete', 'update_metadata', 'search', 'bulk_search',
               'bulk_query', 'batch_delete']
NON_TENANT = {'health': 'process-wide health, outside the property', 'metrics': 'process-wide metrics, outside the property',
              'flush_hot_tier': 'admin operation, no tenant data returned', 'create_snapshot': 'admin operation',
              'get_config': 'static configuration'}
SINK_RX = r'TieredEngine::(insert|bulk_load_cold_tier|delete|batch_delete|batch_delete_by_metadata_filter|update_metadata|' \
          r'query_with_source|bulk_query_with_source|knn_search\w*|get_metadata|exists|get_embedding_cache_aware)$'


def bucket_roles(prog):
    """Structural roles inside TokenBucket, found from what the bodies do (not from their names): the time-credit bodies (a capped write of `tokens` whose
    value derives from duration_since), the core consumers (the guarded `tokens − 1`) and their thin wrappers (functions returning a consumer's verdict)."""
    credit, core = [], []
    tb = [b for b in prog.bodies.values() if '::rate_limiter::TokenBucket::' in '::' + b.id or 'rate_limiter::TokenBucket::' in b.id]
    for b in tb:
        of = None
        for i, blk in enumerate(b.blocks):
            if i not in b.live_blocks():
                continue
            for s_ in blk['s']:
                rv = s_.get('rv')
                pr = s_['pl'].get('p') or [] if rv else []
                fs = [x for x in pr if isinstance(x, str) and x != '*']
                if rv and fs and fs[-1].endswith('TokenBucket.tokens'):
                    of = of or flow.Origin(b)
                    r = flow.render(of.of_rvalue(rv, 0, frozenset()))
                    if 'duration_since' in r and b not in credit:
                        credit.append(b)
                    if re.search(r'TokenBucket\.tokens Sub 1', r) and b not in core:
                        core.append(b)
    consumers = list(core)
    changed = True
    while changed:
        changed = False
        for b in tb:
            if b in consumers:
                continue
            d0 = b.defs.get(0, [])
            if d0 and all(d[2] == 'call' and d[3].callee and prog.resolve_local(d[3].callee) in consumers for d in d0):
                consumers.append(b)
                changed = True
    return credit, core, consumers


def reaches_body(prog, b, targets, depth=3):
    """calls in b that reach one of `targets` (directly or through TokenBucket helpers)"""
    out = []
    for c in b.calls:
        g = prog.resolve_local(c.callee) if c.callee else None
        if g is None or g is b:
            continue
        if g in targets or (depth > 0 and 'rate_limiter::TokenBucket::' in g.id and reaches_body(prog, g, targets, depth - 1)):
            out.append(c)
    return out


def stamp_monotone(prog, b, op, depth=3):
    """Is the instant stored into last_refill never earlier than the stored one?  Yes when it is read from the monotonic clock inside the bucket's critical
    section: Instant::now() in this body (it runs under &mut self), or a parameter that every caller fills with an Instant::now() evaluated after the bucket's
    Mutex::lock() it calls the method on.  Returns (ok, how)."""
    e = flow.Origin(b).of_operand(op)
    r = flow.render(e)
    if re.match(r'^(time::)?Instant::now\(\)$', r):
        return True, 'Instant::now() read in %s (under &mut self)' % b.name
    if e[0] == 'arg' and depth > 0:
        n = e[1]
        callers = [c for c in prog.callers_of(b.short.split('::', 1)[-1]) if prog.resolve_local(c.callee) is b]
        if not callers:
            return False, 'parameter %s with no caller to inspect' % r
        for c in callers:
            u = c.body
            if len(c.args) < n:
                return False, 'call at %s has no such argument' % c.loc
            a = c.args[n - 1]
            ok, how = stamp_monotone(prog, u, a, depth - 1)
            if not ok:
                return False, 'via %s: %s' % (u.name, how)
            if 'read in %s' % u.name in how and 'rate_limiter::TokenBucket::' not in u.id:
                # read outside the bucket: it has to come after the lock acquisition of the receiver
                ou = flow.Origin(u)
                nowc = [x for x in u.calls if x.callee and re.search(r'Instant::now$', x.callee) and x.dest is not None and a.get('k') in ('mv', 'cp') and u.dominates(x.bb, c.bb)]
                lk = [x for x in u.calls if x.callee and re.search(r'Mutex<.*>::lock$|Mutex::lock$', flow.short(x.callee)) and u.dominates(x.bb, c.bb)]
                recv = flow.render(ou.of_operand(c.args[0]))
                if not (lk and nowc and any(u.dominates(l_.bb, n_.bb) and l_.bb != n_.bb or (l_.bb != n_.bb and n_.bb in u.reach([l_.bb]) and l_.bb not in u.reach([n_.bb])) for l_ in lk for n_ in nowc if flow.render(ou.of_operand(l_.args[0])) in recv)):
                    return False, 'via %s: the clock is read at %s before the bucket is locked — a racing request that read it later may already have stamped a later instant' % (u.name, nowc[0].loc if nowc else '?')
        return True, 'parameter filled by every caller with a clock read inside the critical section'
    return False, 'stored instant is %s' % r[:80]


def run(ctx, prog):
    ctx.not_decided = ['the inequality admitted ≤ burst + rate·Δt (floating-point refill over real time)',
                       'fairness between tenants under contention']
    # ------------------------------------------------------------------ R1
    ctx.rule('C19.R1', 'closed set of writes to TokenBucket.tokens: construction with tokens = capacity, −1 under tokens ≥ 1, '
                       'or f64::min(_, capacity as f64); refill stamps last_refill whenever it adds tokens')
    n_w = 0
    for b in prog.bodies.values():
        if 'rate_limiter' not in b.id:
            continue
        ov = None
        for i, blk in enumerate(b.blocks):
            if i not in b.live_blocks():
                continue
            for s in blk['s']:
                rv = s.get('rv')
                if not rv:
                    continue
                pr = s['pl'].get('p') or []
                fs = [x for x in pr if isinstance(x, str) and x != '*']
                if fs and fs[-1].endswith('TokenBucket.tokens'):
                    n_w += 1
                    ov = ov or flow.Origin(b, stop_at_vars=True)
                    r = flow.render(ov.of_rvalue(rv, 0, frozenset()))
                    # classified on the fully expanded value as well: a named temporary (`let cap = self.capacity as f64`) or a guard kept in a named bool
                    # must not change the verdict
                    ofull = flow.Origin(b)
                    rfull = flow.render(ofull.of_rvalue(rv, 0, frozenset()))
                    kind = None
                    # the bucket written and the bucket whose capacity / count is read are the same object (the receiver differs when the code was inlined into a caller)
                    recv = flow.render(ofull.of_place({'l': s['pl']['l'], 'p': [x for x in pr if not (isinstance(x, str) and x.endswith('TokenBucket.tokens'))]}))
                    rq = re.escape(recv)
                    if re.match(r'^f64::min\(.*, (arg:self|%s)→TokenBucket\.capacity\)$' % rq, r) or re.match(r'^f64::min\(.*, (arg:self|%s)→TokenBucket\.capacity\)$' % rq, rfull):
                        kind = 'min(_, capacity)'
                    elif re.match(r'^\((arg:self|%s)→TokenBucket\.tokens Sub 1(\.0)?(f64)?\)$' % rq, r) or re.match(r'^\((arg:self|%s)→TokenBucket\.tokens Sub 1f64\)$' % rq, rfull):
                        # guarded by tokens >= 1.0
                        g = []
                        for j, blk2 in enumerate(b.blocks):
                            if blk2['t']['k'] == 'switch':
                                for tg, p in list(flow.switch_edge_predicates(b, j, ov)) + list(flow.switch_edge_predicates(b, j, ofull)):
                                    if re.match(r'^cmp\[1(\.0)?f64 <= (arg:self|%s)→TokenBucket\.tokens\]$|^cmp\[(arg:self|%s)→TokenBucket\.tokens >= 1(\.0)?f64\]$' % (rq, rq), p) and (j, tg) not in g:
                                        g.append((j, tg))
                        if g and i not in b.reach([0], avoid_edges=g):
                            kind = '−1 under tokens ≥ 1'
                        else:
                            kind = None
                            r += '  (no dominating tokens ≥ 1.0 guard; guards seen: %s)' % g
                    ctx.inst('C19.R1', b.short, 'write of tokens #%d' % sum(1 for x in ctx.instances if x.get('config') == ctx.config and x['rule'] == 'C19.R1' and x['key'].startswith('C19.R1 | %s | write' % b.short)),
                             kind is not None, 'tokens = %s  [%s]' % (r, kind or 'UNCLASSIFIED: an uncapped or unguarded write lets admitted traffic exceed the bound'))
                elif rv['k'] == 'agg' and rv.get('adt', '').endswith('rate_limiter::TokenBucket'):
                    n_w += 1
                    ov = ov or flow.Origin(b, stop_at_vars=True)
                    f = rv['fields']
                    tok = flow.render(ov.of_operand(rv['ops'][f.index('tokens')]))
                    cap = flow.render(ov.of_operand(rv['ops'][f.index('capacity')]))
                    rate = flow.render(ov.of_operand(rv['ops'][f.index('refill_rate')]))
                    ctx.inst('C19.R1', b.short, 'construction: tokens = capacity = rate', tok == cap == rate,
                             'TokenBucket{capacity: %s, tokens: %s, refill_rate: %s}' % (cap, tok, rate))
    ctx.floor('C19.R1', 'writes of TokenBucket.tokens', n_w, 4, 'new, try_consume, refund_one, refill')
    credit, core, consumers = bucket_roles(prog)
    if not credit:
        ctx.missing('C19.R1', 'a TokenBucket function that credits tokens from elapsed time (capped write of tokens derived from duration_since)')
    if not core:
        ctx.missing('C19.R1', 'a TokenBucket function that consumes a token (guarded tokens − 1)')
    def _token_writes(b, want):
        """blocks of b that write TokenBucket.tokens with a time credit (value derived from duration_since) / a consumption (− 1)"""
        ofb = flow.Origin(b)
        out = []
        for i_, blk in enumerate(b.blocks):
            if i_ not in b.live_blocks():
                continue
            for s_ in blk['s']:
                rv_ = s_.get('rv')
                pr_ = (s_['pl'].get('p') or []) if rv_ else []
                fs_ = [x for x in pr_ if isinstance(x, str) and x != '*']
                if rv_ and fs_ and fs_[-1].endswith('TokenBucket.tokens'):
                    r_ = flow.render(ofb.of_rvalue(rv_, 0, frozenset()))
                    if (want == 'credit' and 'duration_since' in r_) or (want == 'consume' and re.search(r'TokenBucket\.tokens Sub 1', r_)):
                        out.append(i_)
        return out

    for rf in credit:
        # the time-credit writes of this body (a body can also contain the consumption, e.g. when a helper was inlined)
        tw = _token_writes(rf, 'credit')
        lw = util.assign_blocks(rf, r'TokenBucket\.last_refill$')
        if tw:
            st_ = [b_ for b_ in tw if b_ not in lw]
            r = (rf.reach(st_, avoid_blocks=lw) | set(st_)) if st_ else set()
            ctx.inst('C19.R1', rf.short, 'refill stamps last_refill whenever tokens are added', bool(lw) and not any(x in r for x in rf.return_blocks()),
                     'a path adds tokens without moving last_refill (the same interval would be credited twice)' if any(x in r for x in rf.return_blocks()) else 'tokens and last_refill move together')
        # the stamp never moves backwards: an instant read before the bucket was locked can be older than what a racing request already stored; storing it
        # re-credits the interval in between on the next refill. Either the instant is read inside the critical section, or the store is behind `elapsed > 0`
        ovr = flow.Origin(rf, stop_at_vars=True)
        ofr = flow.Origin(rf)
        k_ = 0
        for i, blk in enumerate(rf.blocks):
            if i not in rf.live_blocks():
                continue
            for s_ in blk['s']:
                rv = s_.get('rv')
                pr = (s_['pl'].get('p') or []) if rv else []
                fs = [x for x in pr if isinstance(x, str) and x != '*']
                if not (rv and fs and fs[-1].endswith('TokenBucket.last_refill') and rv['k'] == 'use'):
                    continue
                ok, how = stamp_monotone(prog, rf, rv['a'])
                if not ok:
                    # guarded by elapsed > 0 where elapsed = V.duration_since(self.last_refill)
                    v = flow.render(ofr.of_operand(rv['a']))
                    g = []
                    for j, blk2 in enumerate(rf.blocks):
                        if blk2['t']['k'] == 'switch':
                            for tg, p in flow.switch_edge_predicates(rf, j, ofr):
                                if re.match(r'^cmp\[(\+ )?.*duration_since\(%s, arg:self→TokenBucket\.last_refill\).* > 0(\.0)?(f64)?\]$' % re.escape(v), p) or \
                                        re.match(r'^cmp\[0(\.0)?(f64)? < .*duration_since\(%s, arg:self→TokenBucket\.last_refill\).*\]$' % re.escape(v), p):
                                    g.append((j, tg))
                    if g and i not in rf.reach([0], avoid_edges=g):
                        ok, how = True, 'stored only behind `%s.duration_since(last_refill) > 0`' % v
                ctx.inst('C19.R1', rf.short, 'last_refill never moves backwards #%d' % k_, ok, how)
                k_ += 1
    for tc in core:
        rc = reaches_body(prog, tc, credit)
        wr = _token_writes(tc, 'consume')
        # the credit step may stand in this very body (inlined): its clock comparison (duration_since against last_refill) is what has to come first — the write
        # itself may be conditional (`if elapsed > 0`)
        otc = flow.Origin(tc)
        own = [c.bb for c in tc.calls if c.callee and c.callee.endswith('Instant::duration_since') and len(c.args) > 1 and 'TokenBucket.last_refill' in flow.render(otc.of_operand(c.args[1]))]
        ctx.inst('C19.R1', tc.short, 'try_consume refills first', (bool(rc) or bool(own)) and bool(wr) and all(any(tc.dominates(c.bb, b_) for c in rc) or any(tc.dominates(o_, b_) and o_ != b_ for o_ in own) for b_ in wr),
                 'the time credit (%s) dominates the consumption' % ([flow.short(c.callee) for c in rc][:2] or 'in this body'))

    # ------------------------------------------------------------------ R2
    ctx.rule('C19.R2', 'check_limit on both bucket paths: `true` only past the tenant\'s and the global bucket\'s consumption (or no '
                       'global bucket); the global bucket is consumed only after the tenant passed; a global refusal refunds the tenant '
                       'before returning false; the buckets map lock is not held while a bucket is consumed')
    cl = ctx.body('C19.R2', 'RateLimiter::check_limit')
    lm = LockModel(prog)

    def consume_calls(u):
        return [c for c in u.calls if c.callee and prog.resolve_local(c.callee) in consumers]

    def admission_shape(u, floor_t, floor_g):
        """tenant → global → refund shape of one function that consumes the buckets itself."""
        of = flow.Origin(u)
        tcs = consume_calls(u)
        marks = {'t_ok': set(), 't_fail': set(), 'g_ok': set(), 'g_fail': set()}
        n_t = n_g = 0
        for c in tcs:
            recv = flow.render(of.of_operand(c.args[0]))
            s_e, f_e = flow.outcome_edges(u, c)
            if s_e is None:
                ctx.inst('C19.R2', u.short, 'try_consume result tested', False, 'result of try_consume at %s is not tested on the spot (returned or stored), so the order of the two consumptions cannot be established' % c.loc)
                continue
            if 'RateLimiter.global_bucket' in recv:
                n_g += 1
                marks['g_ok'] |= set(s_e)
                marks['g_fail'] |= set(f_e)
            else:
                n_t += 1
                marks['t_ok'] |= set(s_e)
                marks['t_fail'] |= set(f_e)
        ctx.floor('C19.R2', 'tenant try_consume sites in %s' % u.name, n_t, floor_t, 'existing-bucket path and new-bucket path' if floor_t == 2 else 'shared admission helper')
        ctx.floor('C19.R2', 'global try_consume sites in %s' % u.name, n_g, floor_g, 'existing-bucket path and new-bucket path' if floor_g == 2 else 'shared admission helper')
        marks['g_none'] = set(util.option_edges(u, r'RateLimiter\.global_bucket$', 'None'))
        refund = set(c.bb for c in u.calls_to('TokenBucket::refund_one'))
        ret_true, ret_false = set(), set()
        for i, blk in enumerate(u.blocks):
            for s_ in blk['s']:
                rv = s_.get('rv')
                if rv and s_['pl']['l'] == 0 and not s_['pl'].get('p') and rv['k'] == 'use' and rv['a'].get('k') == 'c' and rv['a'].get('ty') == 'bool':
                    (ret_true if rv['a'].get('int') == 1 else ret_false).add(i)
        terms, seen = pathsens.explore(u, [], mark_edges=marks, mark_blocks={'refunded': refund, 'ret_true': ret_true, 'ret_false': ret_false})
        bad = []
        for (rb, via, a_, path) in terms:
            if a_.get('ret_true') and not a_.get('ret_false'):
                if not (a_.get('t_ok') and (a_.get('g_ok') or a_.get('g_none'))):
                    bad.append(('returns true without both consumptions', a_))
            if a_.get('g_ok') or a_.get('g_fail'):
                if not a_.get('t_ok'):
                    bad.append(('consumes the global bucket although the tenant did not pass (a tenant refusal then burns a global token)', a_))
            if a_.get('g_fail') and not a_.get('refunded'):
                bad.append(('global refusal without refunding the tenant token', a_))
            if a_.get('t_fail') and a_.get('ret_true'):
                bad.append(('tenant refusal reaches `true`', a_))
            if (a_.get('t_fail') or a_.get('g_fail')) and not a_.get('ret_false'):
                bad.append(('a refusal does not return false', a_))
        ctx.inst('C19.R2', u.short, 'consume tenant → consume global → refund shape on every path', not bad and bool(terms),
                 '; '.join('%s %s' % (w, {k_: v_ for k_, v_ in a_.items()}) for w, a_ in bad[:3]) if bad else '%d abstract return states checked' % len(terms))
        for c in u.calls_to('TokenBucket::refund_one'):
            recv = flow.render(of.of_operand(c.args[0]))
            ctx.inst('C19.R2', u.short, 'refund targets the tenant bucket #%d' % sorted(refund).index(c.bb), 'global_bucket' not in recv, 'refund_one on %s' % recv[:100])
        # the tenant bucket that is charged is the one REGISTERED in the shared map (looked up, or the entry returned by or_insert_with): a bucket built
        # locally and charged instead of the registered one gives every racing first request its own full bucket
        k2 = 0
        for c in tcs + u.calls_to('TokenBucket::refund_one'):
            recv = flow.render(of.of_operand(c.args[0]))
            if 'RateLimiter.global_bucket' in recv:
                continue
            if u is not cl and re.match(r'^Mutex::lock\(arg:\w+\)$', recv):
                # helper: the bucket is a parameter — checked at the call sites in check_limit below
                continue
            reg = bool(re.match(r'^Mutex::lock\((HashMap::get\(RwLock::(read|write)\(arg:self→RateLimiter\.buckets\), arg:tenant_id\)@Some→Some\.0|Entry::or_insert_with\(HashMap::entry\(RwLock::write\(arg:self→RateLimiter\.buckets\), .*\))\)$', recv))
            ctx.inst('C19.R2', u.short, 'charged tenant bucket #%d is the one registered in the shared map' % k2, reg, '%s on %s' % (flow.short(c.callee), recv[:150]))
            k2 += 1
        k_ = 0
        for c in sorted(consume_calls(u) + u.calls_to('TokenBucket::refund_one'), key=lambda x: x.bb):
            h = lm.held_at(u, c.bb, must=False)
            ctx.inst('C19.R2', u.short, 'consumption #%d without the map lock' % k_, 'RateLimiter.buckets' not in h,
                     '%s at %s: may-held = %s' % (flow.short(c.callee), c.loc, sorted(h)))
            k_ += 1

    if consume_calls(cl):
        admission_shape(cl, 2, 2)
    else:
        # the admission step lives in a helper: the shape is checked there, and check_limit answers with the helper's verdict
        units = []
        for c in cl.calls:
            g = prog.resolve_local(c.callee) if c.callee else None
            if g is not None and '::RateLimiter::' in g.id and consume_calls(g) and g not in units:
                units.append(g)
        if not units:
            ctx.missing('C19.R2', 'check_limit: consumption of the buckets (directly or in a helper it calls)')
        for u in units:
            admission_shape(u, 1, 1)
        ucalls = [c for c in cl.calls if c.callee and prog.resolve_local(c.callee) in units]
        defs0 = [d for d in cl.defs.get(0, [])]
        ok = bool(ucalls)
        why = []
        for d in defs0:
            if d[2] == 'call' and d[3] in ucalls:
                continue
            if d[2] == 'assign' and d[3]['rv']['k'] == 'use' and d[3]['rv']['a'].get('k') == 'c' and d[3]['rv']['a'].get('int') == 0:
                continue
            if d[2] == 'assign':
                # `true` only on the success edge of a helper call
                se = [e for c in ucalls for e in (flow.success_edges(cl, c) or [])]
                if se and d[0] not in cl.reach([0], avoid_edges=se):
                    continue
            ok = False
            why.append('return value set at %s is not the helper\'s verdict' % cl.loc_of(d[0]))
        of_cl = flow.Origin(cl)
        for k3, c in enumerate(ucalls):
            barg = [flow.render(of_cl.of_operand(a)) for a in c.args[1:]]
            reg = any(re.match(r'^(HashMap::get\(RwLock::(read|write)\(arg:self→RateLimiter\.buckets\), arg:tenant_id\)@Some→Some\.0|Entry::or_insert_with\(HashMap::entry\(RwLock::write\(arg:self→RateLimiter\.buckets\), .*\))$', x) for x in barg)
            ctx.inst('C19.R2', cl.short, 'bucket handed to the admission helper #%d is the one registered in the shared map' % k3, reg, 'arguments: %s' % [x[:110] for x in barg])
        for c in ucalls:
            h = lm.held_at(cl, c.bb, must=False)
            if 'RateLimiter.buckets' in h:
                ok = False
                why.append('helper called with the buckets map lock held')
        ctx.inst('C19.R2', cl.short, 'answers with the admission helper\'s verdict, map lock released', ok, '; '.join(why) or 'helper(s): %s' % [u.name for u in units])

    # ------------------------------------------------------------------ R3
    ctx.rule('C19.R3', 'limiter everywhere: enforce_rate_limit returns Ok only past check_limit = true (tenant absent excepted); every '
                       'tenant-scoped RPC reaches the engine only past an enforce_rate_limit success; inside stream loops no two '
                       'executions of an engine sink (or of the queueing push) happen without a limiter success between them')
    er = ctx.body('C19.R3', 'KyroDBServiceImpl::enforce_rate_limit')
    ck = er.calls_to('RateLimiter::check_limit')
    if not ck:
        ctx.missing('C19.R3', 'enforce_rate_limit: check_limit call')
    else:
        s_e, f_e = flow.outcome_edges(er, ck[0])
        none_t = util.option_edges(er, r'arg:tenant$', 'None')
        r = er.reach([0], avoid_blocks=flow.err_blocks(er), avoid_edges=set(s_e or []) | set(none_t))
        ok = s_e is not None and not any(x in r for x in er.return_blocks())
        o = flow.render(flow.Origin(er).of_operand(ck[0].args[1])) + ', ' + flow.render(flow.Origin(er).of_operand(ck[0].args[2]))
        ctx.inst('C19.R3', er.short, 'Ok only past check_limit = true', ok and 'TenantContext.tenant_id' in o and 'TenantContext.max_qps' in o,
                 'check_limit(%s)' % o[:200])
    methods = server.rpc_methods(prog)
    unclassified = [m for m in methods if m not in TENANT_RPCS and m not in NON_TENANT]
    ctx.inst('C19.R3', 'KyroDbService', 'every RPC classified', not unclassified and len(methods) >= 15,
             'methods: %s; unclassified: %s' % (methods, unclassified), nontrivial=False)
    for m_, why in NON_TENANT.items():
        ctx.exception('C19.R3', 'rpc ' + m_, why)
    n_sink = 0
    for h in TENANT_RPCS:
        fam = server.handler_family(prog, h)
        if not fam:
            ctx.missing('C19.R3', 'RPC handler ' + h)
            continue
        extra = []
        if h in ('search',):
            extra = prog.family(ctx.body('C19.R3', 'KyroDBServiceImpl::handle_search_request'))
        found_enforce = False
        for b in fam + extra:
            en = b.calls_to('KyroDBServiceImpl::enforce_rate_limit')
            e_succ = []
            for c in en:
                found_enforce = True
                e_succ += flow.success_edges(b, c)
            ov = flow.Origin(b, stop_at_vars=True)
            sinks = []
            for c in b.calls:
                if not c.callee:
                    continue
                if re.search(SINK_RX, c.callee):
                    sinks.append((c, flow.short(c.callee)))
                elif re.search(r'::push$', c.callee) and c.args and flow.render(ov.of_operand(c.args[0])) in ('var:pending', 'var:documents'):
                    sinks.append((c, 'queue ' + flow.render(ov.of_operand(c.args[0]))))
            if not sinks:
                continue
            r0 = b.reach([0], avoid_edges=e_succ)
            for c, nm in sinks:
                n_sink += 1
                dom = c.bb not in r0
                # nested closures of a handler (filters etc.) run inside a region already limited: accept when the closure's
                # creation site in its parent is dominated
                if not dom and not en and b.kind == 'Closure':
                    dom = _creation_dominated(prog, b, fam + extra)
                # the shared search helper does not charge itself: then every call of it in the handler has to come after a limiter success there
                if not dom and b in extra and not any(x.calls_to('KyroDBServiceImpl::enforce_rate_limit') for x in extra):
                    dom = _helper_call_dominated(prog, extra[0])
                # stream loops only: a cycle through an await point (in-memory `for` loops over one request's items do not count)
                yields = [i_ for i_, blk_ in enumerate(b.blocks) if blk_['t']['k'] == 'yield']
                after = b.reach(b.succ(c.bb))
                cyc = any(y in after and c.bb in b.reach([y]) for y in yields)
                per_item = True
                if cyc:
                    r1 = b.reach(b.succ(c.bb), avoid_edges=e_succ)
                    per_item = not any(y in r1 and c.bb in b.reach([y], avoid_edges=e_succ) for y in yields)
                idx = sum(1 for x in ctx.instances if x.get('config') == ctx.config and x['rule'] == 'C19.R3' and x['key'].startswith('C19.R3 | rpc %s | %s' % (h, nm)))
                ctx.inst('C19.R3', 'rpc ' + h, '%s #%d behind the limiter' % (nm, idx), dom and per_item,
                         '%s at %s: dominated by a limiter success: %s; in a stream loop: %s; a limiter success between two executions: %s' % (nm, c.loc, dom, cyc, per_item))
        if not found_enforce:
            ctx.inst('C19.R3', 'rpc ' + h, 'calls enforce_rate_limit', False, 'no enforce_rate_limit call in the handler of %s' % h)
    ctx.floor('C19.R3', 'engine sinks in tenant-scoped handlers', n_sink, 18, 'measured on the pinned tree')
    bucket_state_closed(ctx, prog)
    declared_rate(ctx, prog)
    charged_once(ctx, prog)
    # ------------------------------------------------------------------ R7 the global bucket exists whenever the limit is configured
    ctx.rule('C19.R7', 'the bound on total admitted traffic needs the global bucket: the limiter the server installs is built by RateLimiter::new_with_global, whose '
                       'argument is Some(rate_limit.max_qps_global) on every path on which rate limiting is enabled — the None alternative is chosen only on the '
                       '¬rate_limit.enabled edge, not by an estimate of what the configured tenants could reach (a tenant without its own max_qps gets the server '
                       'default later, in the interceptor)')
    n7 = 0
    for mb in prog.family(ctx.body('C19.R7', 'kyrodb_server::main')):
        for c in mb.calls:
            if not (c.callee and c.callee.endswith('RateLimiter::new_with_global') and c.args):
                continue
            n7 += 1
            of7 = flow.Origin(mb)
            alts = flow.top_alternatives(of7.of_operand(c.args[0]))
            r_alts = [flow.render(a) for a in alts]
            some_ok = any(re.match(r'^(core::)?option::Option::Some\{.*RateLimitConfig\.max_qps_global.*\}$', r_) for r_ in r_alts)
            # blocks that build the None alternative
            none_blocks = [i_ for i_, blk in enumerate(mb.blocks) if i_ in mb.live_blocks() for st in blk['s']
                           if st.get('rv', {}).get('k') == 'agg' and str(st['rv'].get('adt', '')).endswith('Option') and st['rv'].get('variant') == 'None' and
                           'u32' in mb.locals[st['pl']['l']] and c.bb in mb.reach([i_])]
            dis_e = [(i_, tg) for i_, blk in enumerate(mb.blocks) if blk['t']['k'] == 'switch' and i_ in mb.live_blocks() for tg, p_ in flow.switch_edge_predicates(mb, i_, of7)
                     if re.match(r'^!bool\[.*RateLimitConfig\.enabled\]$', p_)]
            r0 = mb.reach([0], avoid_edges=dis_e)
            leak = [b_ for b_ in none_blocks if b_ in r0 and c.bb in mb.reach([b_])]
            # only the None that actually flows into this argument matters
            leak = [b_ for b_ in leak if any(flow.render(a) in ('option::Option::None{}', 'core::option::Option::None{}') for a in alts)]
            ctx.inst('C19.R7', mb.short.split('::{')[0], 'the installed limiter has its global bucket whenever rate limiting is enabled', some_ok and bool(dis_e) and not leak,
                     'new_with_global(%s); the None alternative is %s' % (' | '.join(x[:60] for x in r_alts), 'reachable with rate limiting enabled' if leak else 'chosen only on the ¬enabled edge'))
    ctx.floor('C19.R7', 'limiter constructions in main', n7, 1, 'one')
    ctx.stat('functions_analysed', len(TENANT_RPCS) + 6)


# ---------------------------------------------------------------------- R4
T_BUCKET_MUT = r'^&mut (?:kyrodb_engine::)?rate_limiter::TokenBucket$'
MAP_MUTATORS = r'HashMap(?:<.*>)?::(insert|entry|remove|remove_entry|clear|retain|drain|extend|get_mut|iter_mut|values_mut|extract_if|try_insert)$'
ENTRY_OK = ('or_insert_with', 'or_insert', 'or_default', 'or_insert_with_key', 'key')


def bucket_state_closed(ctx, prog):
    """C19.R4: R1 closes the writes of the FIELD tokens; this closes the other ways in which the token count of a live bucket can change."""
    ctx.rule('C19.R4', 'the token count of a registered bucket moves only through the bucket\'s own operations (time credit, −1 under tokens ≥ 1, capped refund): '
                       'no store overwrites a whole TokenBucket behind a reference (`*bucket.lock() = TokenBucket::new(..)` hands the tenant a second full burst '
                       'without time passing — alternating two limits makes every request hit a full bucket), no `&mut TokenBucket` is handed to a function outside '
                       'the analysed crates (mem::replace / swap / take), the shared map RateLimiter.buckets is written only by entry(key).or_insert_with(..) — a '
                       'present entry is never replaced or dropped — and the fields holding the buckets are set at construction only')
    n_ref = n_use = 0
    for b in sorted(prog.bodies.values(), key=lambda x: x.id):
        if b.kind == 'Promoted' or b.crate not in ('kyrodb_engine', 'kyrodb_server'):
            continue
        refs = set(l for l, t in enumerate(b.locals) if re.match(T_BUCKET_MUT, t))
        fn = b.short
        if refs:
            n_ref += 1
            stores = []
            for i in sorted(b.live_blocks()):
                blk = b.blocks[i]
                for s in blk['s']:
                    if 'rv' in s and s['pl']['l'] in refs and s['pl'].get('p') == ['*']:
                        stores.append(s.get('loc') or b.loc_of(i))
                t = blk['t']
                if t['k'] == 'call' and t.get('dest') and t['dest']['l'] in refs and t['dest'].get('p') == ['*']:
                    stores.append(t.get('loc', '?'))
            ctx.inst('C19.R4', fn, 'a bucket behind a reference is never overwritten as a whole', not stores,
                     ('whole-bucket store at %s: the registered bucket is replaced (tokens back to capacity) without time having passed' % stores) if stores
                     else '%d reference(s) to a live bucket, no store through them' % len(refs))
            k = 0
            for c in b.calls:
                if not any(a.get('k') in ('mv', 'cp') and not a['pl'].get('p') and a['pl']['l'] in refs for a in c.args):
                    continue
                n_use += 1
                g = prog.resolve_local(c.callee) if c.callee else None
                ctx.inst('C19.R4', fn, 'live bucket handed on #%d stays inside the analysed code' % k, g is not None,
                         ('%s is analysed (its own stores are inventoried here and in R1)' % flow.short(c.callee)) if g is not None else
                         '&mut TokenBucket passed to %s at %s: a function outside the analysed crates can replace the bucket\'s state' % (c.callee or 'an indirect callee', c.loc))
                k += 1
        if 'rate_limiter' not in b.id:
            continue
        of = None
        k = ke = 0
        for c in b.calls:
            sh = flow.short(c.callee or '')
            m = re.search(MAP_MUTATORS, sh)
            if m and c.args:
                of = of or flow.Origin(b)
                if 'RateLimiter.buckets' not in flow.render(of.of_operand(c.args[0])):
                    continue
                ctx.inst('C19.R4', fn, 'bucket map write #%d only adds a bucket for a vacant key' % k, m.group(1) == 'entry',
                         'HashMap::%s on RateLimiter.buckets at %s%s' % (m.group(1), c.loc, '' if m.group(1) == 'entry' else
                                                                        ': replaces or drops a registered bucket — the next request of the tenant finds a new, full one'))
                k += 1
            m = re.search(r'hash_map::(?:Entry|OccupiedEntry|VacantEntry)(?:<.*>)?::(\w+)$|^(?:Entry|OccupiedEntry|VacantEntry)::(\w+)$', sh)
            if m:
                meth = m.group(1) or m.group(2)
                ctx.inst('C19.R4', fn, 'map entry use #%d keeps a present bucket' % ke, meth in ENTRY_OK,
                         'Entry::%s at %s%s' % (meth, c.loc, '' if meth in ENTRY_OK else ': can overwrite the bucket of an occupied entry'))
                ke += 1
        fw = []
        for i in sorted(b.live_blocks()):
            for s in b.blocks[i]['s']:
                if 'rv' not in s:
                    continue
                fs = [x for x in (s['pl'].get('p') or []) if isinstance(x, str) and x != '*']
                if fs and re.search(r'RateLimiter\.(buckets|global_bucket)$', fs[-1]):
                    fw.append('%s at %s' % (fs[-1].rsplit('::', 1)[-1], s.get('loc', '?')))
        if fw:
            ctx.inst('C19.R4', fn, 'bucket holders are set at construction only', False, 'assignment to %s: every registered bucket (or the global one) is replaced by a new, full one' % fw)
    ctx.floor('C19.R4', 'functions holding a reference to a live bucket', n_ref, 4, 'check_limit, the available_tokens closure, TokenBucket::{try_consume, refund_one, refill, available_tokens}')
    ctx.floor('C19.R4', 'sites handing a live bucket on', n_use, 6, 'check_limit: 4 try_consume + 2 refund_one; try_consume → refill')


# ---------------------------------------------------------------------- R5
def _validated_field(e, field):
    """e is `<AuthManager::validate(..) result>.field`, read as is: a field of the validated TenantInfo below nothing but variant / tuple projections."""
    if e[0] != 'field' or not e[2].endswith(field):
        return False
    x = e[1]
    while x[0] in ('downcast', 'field') and (x[0] == 'downcast' or re.match(r'^\.\d+$', x[2]) or re.search(r'(Continue|Some|Ok)\.0$', x[2])):
        x = x[1]
    return x[0] == 'call' and bool(re.search(r'AuthManager::validate$', x[1]))


def _leaf_defs(b, op, of, at, depth=0):
    """(block, origin tree) of the definitions that can supply operand `op` (plain copies of temporaries followed; `at`: block of the use, for constants)."""
    if op.get('k') not in ('mv', 'cp') or op['pl'].get('p'):
        return [(at, of.of_operand(op))]
    l = op['pl']['l']
    ds = [d for d in b.defs.get(l, []) if d[2] in ('assign', 'call')]
    if not ds or depth > 6:
        return [(at, of.of_operand(op))]
    out = []
    for d in ds:
        if d[2] == 'call':
            out.append((d[0], of.of_call(d[3], 0, frozenset())))
            continue
        rv = d[3]['rv']
        a = rv.get('a') if rv['k'] == 'use' else None
        if a is not None and a.get('k') in ('mv', 'cp') and not a['pl'].get('p') and b.defs.get(a['pl']['l']):
            out += _leaf_defs(b, a, of, d[0], depth + 1)
        else:
            out.append((d[0], of.of_rvalue(rv, 0, frozenset())))
    return out


def _interceptor(ctx, prog, rid):
    m = ctx.body(rid, 'kyrodb_server::main')
    ic = [b for b in prog.family(m) if b.kind == 'Closure' and b.calls_to('AuthManager::validate')]
    if not ic:
        ctx.missing(rid, 'main: interceptor closure calling AuthManager::validate')
        return None
    return ic[0]


def declared_rate(ctx, prog):
    ctx.rule('C19.R5', 'the rate a tenant is limited to is the rate declared with its key: the max_qps the auth interceptor puts into the TenantContext (which '
                       'enforce_rate_limit hands to check_limit, R3) is the validated key\'s own max_qps on every path on which that is non-zero; a substitute '
                       '(the configured default, "unlimited") is chosen only past the test max_qps == 0 — otherwise a switch such as rate_limit.enabled = false '
                       'replaces a declared 5/s by 4 294 967 295/s and the tenant\'s rate bounds nothing')
    ic = _interceptor(ctx, prog, 'C19.R5')
    if ic is None:
        return
    io = flow.Origin(ic)
    aggs = [(i, s['rv']) for i, bl in enumerate(ic.blocks) for s in bl['s'] if s.get('rv', {}).get('k') == 'agg' and s['rv'].get('adt', '').endswith('TenantContext')
            and 'max_qps' in (s['rv'].get('fields') or [])]
    if not aggs:
        ctx.missing('C19.R5', 'interceptor: construction of the TenantContext')
        return
    zero = []
    for j, bl in enumerate(ic.blocks):
        if bl['t']['k'] != 'switch':
            continue
        for tg, p in flow.switch_edge_predicates(ic, j, io):
            mm = re.match(r'^(!?)cmp\[\+ (.*) (==|<=|>=) (\d+)\]$', p)
            if mm and re.match(r'^AuthManager::validate\(.*→TenantInfo\.max_qps$', mm.group(2)):
                neg, rel, c = mm.group(1), mm.group(3), int(mm.group(4))
                if (not neg and rel in ('==', '<=') and c == 0) or (neg and rel == '>=' and c == 1):
                    zero.append((j, tg))
            mm = re.match(r'^(AuthManager::validate\(.*→TenantInfo\.max_qps) = 0$', p)
            if mm:
                zero.append((j, tg))
    r0 = ic.reach([0], avoid_edges=zero)
    n_leaf = n_decl = 0
    for (ab, rv) in aggs:
        k = 0
        for (bb, e) in _leaf_defs(ic, rv['ops'][rv['fields'].index('max_qps')], io, ab):
            n_leaf += 1
            if _validated_field(e, 'TenantInfo.max_qps'):
                n_decl += 1
                continue
            ok = bool(zero) and bb not in r0 and bb != 0
            ctx.inst('C19.R5', 'interceptor', 'substitute rate #%d is chosen only for a key without its own limit' % k, ok,
                     'max_qps = %s %s' % (flow.render(e)[:90], 'only past `key.max_qps == 0`' if ok else
                                          'at %s is reachable although the key declares a non-zero max_qps: the declared rate is not what the limiter enforces' % ic.loc_of(bb)))
            k += 1
    ctx.inst('C19.R5', 'interceptor', 'the declared rate of the validated key reaches the TenantContext', n_decl >= 1,
             '%d of %d possible values of TenantContext.max_qps are AuthManager::validate(..)→TenantInfo.max_qps as is; zero-test edges: %s' % (n_decl, n_leaf, zero[:2]))
    ctx.floor('C19.R5', 'possible values of TenantContext.max_qps', n_leaf, 2, 'the key\'s own rate, max(default, 1), u32::MAX')


# ---------------------------------------------------------------------- R6
def charged_once(ctx, prog):
    ctx.rule('C19.R6', 'a unary request is charged once: on no path through a unary tenant-scoped handler do two limiter charges execute (a call of a function that '
                       'reaches RateLimiter::check_limit: enforce_rate_limit, or a service helper such as handle_search_request that charges itself). A request '
                       'that costs two tokens halves the rate the tenant can use: below its rate it is refused while the global budget has room, and the global '
                       'bucket drains twice as fast for everybody. (Streaming RPCs charge the opening and every item on purpose and are not counted here.)')
    # functions of the server that charge: their family calls check_limit, or a function that does
    roots = {}
    for b in prog.bodies.values():
        if b.crate == 'kyrodb_server':
            roots.setdefault(b.root, []).append(b)
    chargers = set()
    changed = True
    while changed:
        changed = False
        for r, bs in roots.items():
            if r in chargers or r.startswith(server.SERVICE_PREFIX):
                continue
            for b in bs:
                for c in b.calls:
                    g = prog.resolve_local(c.callee) if c.callee else None
                    if c.callee and (c.callee.endswith('RateLimiter::check_limit') or (g is not None and g.root in chargers)):
                        chargers.add(r)
                        changed = True
                        break
                if r in chargers:
                    break
    if not any(r.endswith('KyroDBServiceImpl::enforce_rate_limit') for r in chargers):
        ctx.missing('C19.R6', 'enforce_rate_limit reaching RateLimiter::check_limit')
    n_unary = n_sites = 0
    for h in TENANT_RPCS:
        fam = server.handler_family(prog, h)
        if not fam:
            continue
        root = fam[0]
        if any('Streaming<' in root.locals[i] for i in range(1, root.argc + 1)):
            ctx.exception('C19.R6', 'rpc ' + h, 'streaming RPC: the opening and every item are charged (R3 decides that no item goes uncharged)')
            continue
        n_unary += 1
        per_body = []
        double = []
        for b in fam:
            sites = [c for c in b.calls if c.callee and prog.resolve_local(c.callee) is not None and prog.resolve_local(c.callee).root in chargers]
            if not sites:
                continue
            per_body.append((b, sites))
            n_sites += len(sites)
            for c1 in sites:
                after = b.reach(b.succ(c1.bb)) | set(b.succ(c1.bb))
                for c2 in sites:
                    if c2.bb in after:
                        double.append('%s at %s, then %s at %s' % (flow.short(c1.callee), c1.loc, flow.short(c2.callee), c2.loc))
        if len(per_body) > 1:
            double.append('charges in %d different bodies of the handler: %s' % (len(per_body), [(b.short[-40:], [c.loc for c in s]) for b, s in per_body]))
        ctx.inst('C19.R6', 'rpc ' + h, 'at most one limiter charge on any path', not double,
                 ('the request is charged twice: %s' % '; '.join(double[:2])) if double else
                 'charging calls: %s' % [flow.short(c.callee) for b, s in per_body for c in s])
    ctx.floor('C19.R6', 'unary tenant-scoped handlers', n_unary, 7, 'insert, query, delete, update_metadata, search, bulk_query, batch_delete')
    ctx.floor('C19.R6', 'charging call sites in unary handlers', n_sites, 7, 'one each')


def _helper_call_dominated(prog, helper_root):
    """every call of the helper anywhere in the server comes after a limiter success in the calling body"""
    sites = 0
    for b in prog.bodies.values():
        if b.crate != 'kyrodb_server':
            continue
        cs = [c for c in b.calls if c.callee and c.callee == helper_root.id]
        if not cs:
            continue
        e_succ = []
        for c in b.calls_to('KyroDBServiceImpl::enforce_rate_limit'):
            e_succ += flow.success_edges(b, c)
        r0 = b.reach([0], avoid_edges=e_succ)
        if not e_succ or any(c.bb in r0 or c.bb == 0 for c in cs):
            return False
        sites += len(cs)
    return sites > 0


def _creation_dominated(prog, closure, family):
    by_id = {b.id: b for b in family}
    par = by_id.get(closure.parent)
    if par is None:
        return False
    en = par.calls_to('KyroDBServiceImpl::enforce_rate_limit')
    e_succ = []
    for c in en:
        e_succ += flow.success_edges(par, c)
    r0 = par.reach([0], avoid_edges=e_succ)
    sites = [i for i, blk in enumerate(par.blocks) for s in blk['s'] if s.get('rv', {}).get('k') == 'agg' and s['rv'].get('def') == closure.id]
    if sites and en:
        return all(i not in r0 for i in sites)
    if par.kind == 'Closure':
        return _creation_dominated(prog, par, family)
    return False
