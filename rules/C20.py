"""C20 — caches and the recent-write tier stay within their configured bounds.

Decided statically: the closed set of growth sites per bounded container; each growth is an update of an existing key or
is preceded, on every path, by a `len ≥ capacity ⇒ evict` guard in integer normal form (so `>=` vs `>` is visible); the
cache map and its LRU index move in lock-step; eviction/drain code never deletes from the canonical store; the field each
guard compares with is the constructor's parameter, stored unchanged and never assigned again (R6).  The bound as
arithmetic over whole histories and concurrency are not decided.
"""
import re

from kvstatic import flow, pathsens, rt, util
from kvstatic.callgraph import sync_calls

MANIFEST = {
    'text': 'Decides the structural necessary conditions of the bounds: who may grow each bounded container (closed table), '
            'that every growing insert is an update of a present key or is reached only past `len(container) − capacity ≥ 0 ⇒ '
            'pop_lru + remove` (path-sensitive, comparison in integer normal form), that the recent-write tier is drained or the '
            'insert refused at the hard limit before the canonical write, that map and LRU index are mutated together, and that '
            'eviction and drain never call the canonical delete. The compared bound is the configured value: every constructor stores its own parameter unchanged, the cache '
            'strategies pass their capacity on unchanged, nothing assigns the bound fields afterwards (R6). The bound over whole histories is not decided.',
    'design_ref': 'DESIGN.md §4.20',
    'note': 'Trusted base: rustc MIR, integer normal form of the capacity comparison, path-sensitive exploration with marked '
            'eviction calls. Capacity ≥ 1 is assumed (checked by config validation, C18 evidence).',
    'technique': 'who-may-write table + path-sensitive guard check in normal form + pairing on MIR',
}

EXPLANATION = ('WMC/GUARD/DOM rules of DESIGN §4.20. The growth check explores each growth function path-sensitively: arriving at '
               'the growing insert requires the "present key" edge, or the not-full edge of the normalised comparison, or the full '
               'edge followed by pop_lru and a remove on the same container.')

CONTAINERS = {
    # container field regex : (growth callee regex, allowed growth functions)
    'CacheState.cache': (r'HashMap<.*>::insert$|HashMap::insert$|OccupiedEntry<.*>::insert$', {'vector_cache::VectorCache::insert'}),
    'QueryCacheState.cache': (r'HashMap<.*>::insert$|HashMap::insert$', {'query_hash_cache::QueryHashCache::insert_with_k_scoped_internal'}),
    'HotTier.documents': (r'HashMap<.*>::insert$|HashMap::insert$', {'hot_tier::HotTier::insert_with_coherence', 'hot_tier::HotTier::reinsert_failed_documents'}),
    'EmbeddingCacheState.entries': (r'IndexMap<.*>::insert$|IndexMap::insert$|::insert$', {'semantic_adapter::SemanticAdapter::cache_embedding'}),
}


def growth_sites(prog, field, callee_rx):
    out = []
    for b in prog.bodies.values():
        og = None
        for c in b.calls:
            if c.callee and re.search(callee_rx, c.callee) and c.args and re.search(r'(HashMap|IndexMap|Entry)', c.callee):
                og = og or flow.Origin(b)
                r = flow.render(og.of_operand(c.args[0]))
                if re.search('→' + re.escape(field) + r'\)*$', r) or (('→' + field + ')') in r and 'entry' in r):
                    out.append((b, c, r))
    return out


def run(ctx, prog):
    ctx.not_decided = ['the bound as arithmetic over whole histories (e.g. after a partially failed emergency drain)', 'concurrent growth']
    # ------------------------------------------------------------------ R1
    ctx.rule('C20.R1', 'closed set of growth sites: only the listed function(s) insert into each bounded container; the hot tier\'s '
                       'growth functions are called only from TieredEngine::insert and the drain repair')
    sites = {}
    for field, (rx, allowed) in CONTAINERS.items():
        gs = growth_sites(prog, field, rx)
        fns = sorted(set(b.short.split('::{')[0] for b, c, r in gs))
        sites[field] = gs
        ctx.inst('C20.R1', field, 'growth functions = %s' % sorted(x.split('::')[-1] for x in allowed), set(fns) == allowed,
                 'functions inserting into %s: %s' % (field, fns))
    callers = sorted(set(c.body.short.split('::{')[0] for c in prog.callers_of('HotTier::insert_with_coherence', 'HotTier::reinsert_failed_documents', 'HotTier::insert')
                         if not c.body.short.startswith('hot_tier::')))
    want = ['tiered_engine::TieredEngine::insert', 'tiered_engine::TieredEngine::reconcile_drained_hot_tier_documents']
    ctx.inst('C20.R1', 'HotTier growth', 'callers = {TieredEngine::insert, reconcile_drained_hot_tier_documents}', callers == want, 'callers: %s' % callers)

    # ------------------------------------------------------------------ R2
    ctx.rule('C20.R2', 'evict-before-grow: in each growth function the growing insert is reached through the present-key edge, or past '
                       '`len(container) − capacity ≥ 0` with pop_lru + remove (or shift_remove_index) on the full edge; TieredEngine::insert '
                       'drains the recent-write tier or refuses at `len − hard_limit ≥ 0` before the canonical write')
    SPEC = [
        ('VectorCache::insert', 'CacheState.cache', flow.cmp_rx(r'HashMap::len\(.*CacheState\.cache\)', r'arg:self→VectorCache\.capacity', '>='),
         r'LruIndex<.*>::pop_lru$|LruIndex::pop_lru$', r'HashMap<.*>::remove$|HashMap::remove$', r'^variant\(HashMap::entry\(.*CacheState\.cache.*\)\) = Occupied$'),
        ('QueryHashCache::insert_with_k_scoped_internal', 'QueryCacheState.cache',
         flow.cmp_rx(r'HashMap::len\(.*QueryCacheState\.cache\)', r'arg:self→QueryHashCache\.capacity', '>='),
         r'LruIndex<.*>::pop_lru$|LruIndex::pop_lru$', r'HashMap<.*>::remove$|HashMap::remove$', r'^variant\(HashMap::get\(.*QueryCacheState\.cache.*\)\) = Some$'),
        ('SemanticAdapter::cache_embedding', 'EmbeddingCacheState.entries',
         flow.cmp_rx(r'[\w:<>, ]*IndexMap[\w:<>, ]*::len\(.*EmbeddingCacheState\.entries\)', r'arg:self→SemanticAdapter\.config→SemanticConfig\.max_cached_embeddings', '>='),
         r'::shift_remove_index$', r'::shift_remove_index$', None),
    ]
    for fn, field, full_rx, pop_rx, rm_rx, present_rx in SPEC:
        f = ctx.body('C20.R2', fn)
        of = flow.Origin(f)
        grow = [c.bb for b, c, r in sites.get(field, []) if b.id == f.id]
        if not grow:
            ctx.missing('C20.R2', '%s: growing insert into %s' % (fn, field))
            continue
        atoms = [pathsens.Atom('full', full_rx)]
        if present_rx:
            atoms.append(pathsens.Atom('present', present_rx))
        pops = set(c.bb for c in f.calls if c.callee and re.search(pop_rx, c.callee))
        rms = set(c.bb for c in f.calls if c.callee and re.search(rm_rx, c.callee) and c.args and field.split('.')[-1] in flow.render(of.of_operand(c.args[0])))
        # the removal may live in a helper of the same module (e.g. remove_entry): a callee that itself removes from this field counts as the removal
        for c in f.calls:
            g = prog.resolve_local(c.callee) if c.callee else None
            if g is not None and g is not f and g.id.split('::')[0:2] == f.id.split('::')[0:2]:
                og_ = flow.Origin(g)
                if any(x.callee and re.search(rm_rx, x.callee) and x.args and flow.render(og_.of_operand(x.args[0])).endswith(field) for x in g.calls):
                    rms.add(c.bb)
        pop_none = set()
        for c in f.calls:
            if c.callee and re.search(pop_rx, c.callee) and 'pop_lru' in c.callee:
                s_e, f_e = flow.outcome_edges(f, c)
                pop_none |= set(f_e or [])
        terms, seen = pathsens.explore(f, atoms, mark_blocks={'popped': pops, 'removed': rms}, mark_edges={'pop_none': pop_none},
                                       stop_blocks=set(grow))
        arr = [t for t in terms if t[0] in grow]
        if not seen.get('full'):
            # the evict-if-full step may have been moved into a private helper of the same type, called (with the state guard) before the insert: the helper
            # is then explored with the same atoms — each of its returns must be "not full" or "full, popped and removed"
            helper_ok = None
            for c in f.calls:
                g = prog.resolve_local(c.callee) if c.callee else None
                if g is None or g is f or g.id.split('::')[0:2] != f.id.split('::')[0:2] or not all(f.dominates(c.bb, gb) for gb in grow):
                    continue
                og = flow.Origin(g)
                g_pops = set(x.bb for x in g.calls if x.callee and re.search(pop_rx, x.callee))
                g_rms = set(x.bb for x in g.calls if x.callee and re.search(rm_rx, x.callee) and x.args and field.split('.')[-1] in flow.render(og.of_operand(x.args[0])))
                g_none = set()
                for x in g.calls:
                    if x.callee and re.search(pop_rx, x.callee) and 'pop_lru' in x.callee:
                        _s, _f = flow.outcome_edges(g, x)
                        g_none |= set(_f or [])
                g_terms, g_seen = pathsens.explore(g, [pathsens.Atom('full', full_rx)], mark_blocks={'popped': g_pops, 'removed': g_rms}, mark_edges={'pop_none': g_none})
                if g_seen.get('full'):
                    g_bad = [a for (rb, via, a, path) in g_terms if not via and not (a.get('full') is False or (a.get('full') is True and a.get('popped') and (a.get('removed') or a.get('pop_none'))))]
                    helper_ok = (g, not g_bad, len(g_terms))
                    break
            if helper_ok is not None:
                ctx.inst('C20.R2', f.short, 'growth of %s only when present, not full, or after eviction' % field, helper_ok[1],
                         'evict-if-full step in helper %s (called before every growing insert): %d abstract return states, all not-full or evicted: %s' % (helper_ok[0].name, helper_ok[2], helper_ok[1]))
                continue
            ctx.inst('C20.R2', f.short, 'capacity guard in normal form', False,
                     'anchor missing: no switch with predicate `len(%s) − capacity ≥ 0` (a `>` instead of `>=`, a different '
                     'container or capacity field changes the normal form)' % field)
            continue
        bad = []
        for (bb, via, a, path) in arr:
            ok = a.get('present') is True or a.get('full') is False or (a.get('full') is True and a.get('popped') and (a.get('removed') or a.get('pop_none')))
            if not ok:
                bad.append((bb, a))
        ctx.inst('C20.R2', f.short, 'growth of %s only when present, not full, or after eviction' % field, bool(arr) and not bad,
                 ('the insert at %s is reached with %s' % (f.loc_of(bad[0][0]), bad[0][1])) if bad else '%d abstract arrivals at %d growing insert(s)' % (len(arr), len(set(grow))))
        # the victim that leaves the map is the victim the LRU index named: the key handed to the removal (direct, or through a remover helper) is the value
        # pop_lru returned, as it is — a key rebuilt from parts (another scope, another hash) removes nothing while the index has already forgotten the entry
        if 'pop_lru' in pop_rx:
            kk = 0
            for c in f.calls:
                if not c.callee or c.bb not in rms:
                    continue
                if c.bb not in (f.reach([x for x in pops]) if pops else set()):
                    continue
                karg = None
                if re.search(rm_rx, c.callee) and len(c.args) > 1:
                    karg = c.args[1]
                else:
                    g = prog.resolve_local(c.callee)
                    if g is not None:
                        # the helper's key parameter: the argument whose type is the map's key type
                        for a in c.args[1:]:
                            if a.get('k') in ('mv', 'cp'):
                                karg = a
                                break
                if karg is None:
                    continue
                kr = flow.render(of.of_operand(karg))
                okk = bool(re.match(r'^LruIndex::pop_lru\(.*\)@Some→Some\.0$', kr))
                ctx.inst('C20.R2', f.short, 'eviction #%d removes the key pop_lru returned, as it is' % kk, okk,
                         'removal key = %s%s' % (kr[:120], '' if okk else ' — not the popped key itself: when it differs (another scope) nothing is removed and the map grows past its capacity'))
                kk += 1
    ti = ctx.body('C20.R2', 'TieredEngine::insert')
    util.bind_role(ti, 'current_size', type_rx=r'^usize$', assigned_from=r'HotTier::len')
    ov = flow.Origin(ti, stop_at_vars=True)
    cold = [c.bb for c in ti.calls_to('HnswBackend::insert')]
    fl = ti.calls_to('TieredEngine::emergency_flush_hot_tier')
    fl_ok = []
    for c in fl:
        fl_ok += flow.success_edges(ti, c)
    atoms = [pathsens.Atom('at_limit', flow.cmp_rx(r'var:current_size', r'arg:self→TieredEngine\.config→TieredEngineConfig\.hot_tier_hard_limit', '>='))]
    # explore needs var-level predicates
    terms, seen = _explore_vars(ti, atoms, {'flushed': set(fl_ok)}, set(cold))
    arr = [t for t in terms if t[0] in cold]
    cs = ti.var_local('current_size')
    org = flow.render(flow.Origin(ti).of_local(cs[0])) if cs else '?'
    if not seen.get('at_limit'):
        # the hard-limit step may live in a private helper whose success dominates the canonical write: explore the helper — it returns Ok only below the limit
        # or after a successful drain
        h_ok = None
        for c in ti.calls:
            g = prog.resolve_local(c.callee) if c.callee else None
            if g is None or 'TieredEngine::' not in g.id or g is ti:
                continue
            se_ = flow.success_edges(ti, c)
            if not se_ or any(cb_ in ti.reach([0], avoid_edges=se_) for cb_ in cold):
                continue
            util.bind_role(g, 'current_size', type_rx=r'^usize$', assigned_from=r'HotTier::len')
            g_fl = g.calls_to('TieredEngine::emergency_flush_hot_tier')
            g_ok_e = []
            for x in g_fl:
                g_ok_e += flow.success_edges(g, x)
            g_terms, g_seen = _explore_vars(g, atoms, {'flushed': set(g_ok_e)}, set())
            if g_seen.get('at_limit'):
                errs_g = flow.err_blocks(g)
                bad_g = [a for (rb, via, a, p_) in g_terms if not via and not (set(p_) & errs_g) and not (a.get('at_limit') is False or a.get('flushed'))]
                gcs = g.var_local('current_size')
                gorg = flow.render(flow.Origin(g).of_local(gcs[0])) if gcs else '?'
                h_ok = (g, not bad_g and gorg == 'HotTier::len(arg:self→TieredEngine.hot_tier)', gorg)
                break
        if h_ok is not None:
            ctx.inst('C20.R2', ti.short, 'canonical write only below the hard limit or after a successful drain', h_ok[1],
                     'hard-limit step in helper %s, whose success dominates the canonical write; it returns Ok only below the limit or after a drain: %s; current_size = %s' % (h_ok[0].name, h_ok[1], h_ok[2]))
        else:
            ctx.inst('C20.R2', ti.short, 'hard-limit guard in normal form', False, 'anchor missing: no `current_size − hot_tier_hard_limit ≥ 0` switch')
    else:
        bad = [a for (bb, via, a, p) in arr if not (a.get('at_limit') is False or a.get('flushed'))]
        ctx.inst('C20.R2', ti.short, 'canonical write only below the hard limit or after a successful drain', bool(arr) and not bad and org == 'HotTier::len(arg:self→TieredEngine.hot_tier)',
                 'current_size = %s; arrivals: %d; unguarded: %s' % (org, len(arr), bad[:2]))
    # the drain empties the tier
    dr = ctx.body('C20.R2', 'HotTier::drain_for_flush')
    dcalls = [c for c in dr.calls if c.callee and re.search(r'HashMap<.*>::drain$|HashMap::drain$', c.callee)]
    ctx.inst('C20.R2', dr.short, 'drain_for_flush drains the whole map', bool(dcalls), 'drain calls: %d' % len(dcalls))
    ef = ctx.body('C20.R2', 'TieredEngine::emergency_flush_hot_tier')
    ctx.inst('C20.R2', ef.short, 'emergency flush = drain_for_flush', bool(ef.calls_to('HotTier::drain_for_flush')), '')
    # …unconditionally: TieredEngine::insert treats Ok from the emergency flush as "the tier was emptied" and mirrors the new document; an Ok return that did
    # not pass the drain (e.g. behind the soft-threshold test needs_flush()) lets the tier grow past the hard limit whenever hard < soft
    dblocks = set(c.bb for c in ef.calls_to('HotTier::drain_for_flush'))
    leak = flow.ok_return_reachable(ef, [0], avoid_blocks=dblocks)
    ctx.inst('C20.R2', ef.short, 'every Ok return of the emergency flush is behind the drain', bool(dblocks) and not leak,
             'an Ok return is reachable without calling HotTier::drain_for_flush — the caller takes Ok as "drained" and grows the tier at the hard limit' if leak
             else 'no Ok return avoids the drain (%d drain call(s))' % len(dblocks))

    # ------------------------------------------------------------------ R3
    ctx.rule('C20.R3', 'lock-step of map and LRU index in both caches: a growing insert is followed on every path by lru.insert_new, '
                       'a removal comes from pop_lru or is followed by lru.remove, clear clears both')
    for fn, field in (('VectorCache::insert', 'CacheState.cache'), ('QueryHashCache::insert_with_k_scoped_internal', 'QueryCacheState.cache')):
        f = ctx.body('C20.R3', fn)
        grow = [c.bb for b, c, r in sites.get(field, []) if b.id == f.id and 'OccupiedEntry' not in c.callee]
        newb = [c.bb for c in f.calls if c.callee and re.search(r'LruIndex<.*>::insert_new$|LruIndex::insert_new$|LruIndex<.*>::touch$|LruIndex::touch$', c.callee)]
        bad = False
        for g in grow:
            r = f.reach(f.succ(g), avoid_blocks=newb)
            if any(x in r for x in f.return_blocks()):
                bad = True
        ctx.inst('C20.R3', f.short, 'every insert into %s is followed by an LRU insert/touch' % field, bool(grow) and not bad,
                 'a path returns after inserting without updating the LRU index' if bad else '%d inserts paired' % len(grow))
    for b in prog.bodies.values():
        if not re.search(r'^kyrodb_engine::(vector_cache::VectorCache|query_hash_cache::QueryHashCache)::\w+$', b.id):
            continue
        of = flow.Origin(b)
        ops_c, ops_l = set(), set()
        rm_blocks, lr_blocks = [], []
        for c in b.calls:
            if not c.callee or not c.args:
                continue
            r = flow.render(of.of_operand(c.args[0]))
            m = c.callee.split('::')[-1]
            if re.search(r'(CacheState|QueryCacheState)\.cache$', r) and m in ('remove', 'clear', 'retain', 'drain'):
                ops_c.add(m)
                rm_blocks.append(c.bb)
            if re.search(r'(CacheState|QueryCacheState)\.lru$', r) and m in ('remove', 'clear', 'pop_lru', 'retain'):
                ops_l.add(m)
                lr_blocks.append(c.bb)
        if not ops_c:
            continue
        ok = True
        if 'clear' in ops_c and 'clear' not in ops_l:
            ok = False
        if 'remove' in ops_c and not ({'remove', 'pop_lru'} & ops_l):
            ok = False
        if 'remove' in ops_c and ok:
            # each map removal is dominated by a pop_lru or followed by an lru removal before returning
            for rb_ in [c.bb for c in b.calls if c.callee and c.callee.endswith('::remove') and c.args and re.search(r'\.cache$', flow.render(of.of_operand(c.args[0])))]:
                pre = any(b.dominates(l_, rb_) for l_ in lr_blocks)
                s_e, f_e = flow.outcome_edges(b, b.call_at(rb_))
                st_ = [e[1] for e in s_e] if s_e else b.succ(rb_)   # only when something was actually removed
                post = not any(x in (b.reach(st_, avoid_blocks=lr_blocks) | (set(st_) - set(lr_blocks))) for x in b.return_blocks())
                if not post:  # unconditional pairing right after the removal
                    st2 = b.succ(rb_)
                    post = not any(x in (b.reach(st2, avoid_blocks=lr_blocks) | (set(st2) - set(lr_blocks))) for x in b.return_blocks())
                if not (pre or post):
                    ok = False
        ctx.inst('C20.R3', b.short, 'map/LRU removals paired', ok, 'map ops %s; lru ops %s' % (sorted(ops_c), sorted(ops_l)))

    # ------------------------------------------------------------------ R4
    ctx.rule('C20.R4', 'whatever is evicted or drained stays canonical: HnswBackend::delete / batch_delete are called only from the '
                       'engine\'s delete paths, never from eviction, drain or cache code')
    dc = sorted(set(c.body.short.split('::{')[0] for c in prog.callers_of('HnswBackend::delete', 'HnswBackend::batch_delete')))
    want = ['tiered_engine::TieredEngine::batch_delete', 'tiered_engine::TieredEngine::batch_delete_by_metadata_filter', 'tiered_engine::TieredEngine::delete']
    ctx.inst('C20.R4', 'HnswBackend::delete*', 'callers ⊆ engine delete paths', set(dc) <= set(want) and bool(dc), 'callers: %s' % dc)
    # and none of the drain/eviction functions can reach them
    sc = sync_calls(prog)
    from kvstatic.callgraph import reachable_bodies
    for root in ('TieredEngine::emergency_flush_hot_tier', 'TieredEngine::flush_hot_tier', 'TieredEngine::reconcile_drained_hot_tier_documents',
                 'VectorCache::insert', 'QueryHashCache::insert_with_k_scoped_internal'):
        b = ctx.body('C20.R4', root)
        reach = reachable_bodies(prog, [b.id])
        hits = [x for x in reach if re.search(r'HnswBackend::(delete|batch_delete)$', x)]
        ctx.inst('C20.R4', b.short, 'cannot reach the canonical delete', not hits, 'reachable bodies: %d; canonical deletes among them: %s' % (len(reach), hits))
    # ------------------------------------------------------------------ R5 the recency list both caches evict through
    ctx.rule('C20.R5', 'link discipline of LruIndex (the victim picker of both caches; a broken list makes pop_lru return None and the caches insert without '
                       'evicting): head / tail / prev / next are written only by insert_new, touch, detach and clear; nodes leave the map only in remove, which '
                       'unlinks them through detach with their own links; pop_lru removes the head through remove; detach moves head exactly when the node '
                       'had no predecessor (or was the head) and tail exactly when it had no successor (or was the tail), and re-links both neighbours; '
                       'insert_new links the new key behind the old tail and becomes tail, and head when the list was empty')
    lb = {b.name: b for b in prog.bodies.values() if '::lru_index::LruIndex::' in b.id and b.kind in ('Fn', 'AssocFn')}
    WRITERS = {'LruIndex.head': ['clear', 'detach', 'insert_new', 'touch'], 'LruIndex.tail': ['clear', 'detach', 'insert_new', 'touch'],
               'LruNode.next': ['detach', 'insert_new', 'touch'], 'LruNode.prev': ['detach', 'touch']}
    all_lru = [b for b in prog.bodies.values() if b.crate == 'kyrodb_engine' and b.kind != 'Promoted']
    for fld, want in sorted(WRITERS.items()):
        ws = sorted(set(b.name for b in all_lru if util.assign_blocks(b, re.escape(fld) + '$') and 'lru_index' in b.id))
        outside = sorted(set(b.short for b in all_lru if util.assign_blocks(b, re.escape(fld) + '$') and 'lru_index' not in b.id))
        ctx.inst('C20.R5', fld, 'written only by %s' % want, ws == want and not outside, 'writers: %s%s' % (ws, (' + outside the module: %s' % outside) if outside else ''))
    for meth, want in (('remove', ['remove']), ('insert', ['insert_new']), ('clear', ['clear'])):
        cs = sorted(set(c.body.name for c in prog.all_calls() if c.callee and flow.short(c.callee) == 'HashMap::' + meth and 'lru_index::LruIndex' in c.body.id and c.args and
                        flow.render(flow.Origin(c.body).of_operand(c.args[0])).endswith('LruIndex.nodes')))
        ctx.inst('C20.R5', 'LruIndex.nodes', 'nodes.%s only in %s' % (meth, want), cs == want, 'callers: %s' % cs)
    rm = lb.get('remove')
    if rm is None or 'detach' not in lb or 'pop_lru' not in lb or 'insert_new' not in lb:
        ctx.missing('C20.R5', 'LruIndex::{remove, detach, pop_lru, insert_new}')
    else:
        ov = flow.Origin(rm, stop_at_vars=True)
        some = [(i_, tg) for i_, blk in enumerate(rm.blocks) if blk['t']['k'] == 'switch' for tg, p in flow.switch_edge_predicates(rm, i_, ov)
                if p == 'variant(HashMap::remove(arg:self→LruIndex.nodes, arg:key)) = Some']
        dt = [c for c in rm.calls_to('LruIndex::detach')]
        args_ok = bool(dt) and all([flow.render(ov.of_operand(a, 0, frozenset({-1}))) for a in c.args[1:]] == ['arg:key', 'var:node→LruNode.prev', 'var:node→LruNode.next'] for c in dt)
        nd = rm.var_local('node')
        node_ok = len(nd) == 1 and 'HashMap::remove(arg:self→LruIndex.nodes, arg:key)@Some' in flow.render(flow.Origin(rm).of_local(nd[0]))
        r_ = rm.reach([tg for _, tg in some], avoid_blocks=[c.bb for c in dt]) | set(tg for _, tg in some if tg not in [c.bb for c in dt])
        ctx.inst('C20.R5', rm.short, 'a node taken out of the map is unlinked with its own links', bool(some) and args_ok and node_ok and not any(x in r_ for x in rm.return_blocks()),
                 'detach(key, node.prev, node.next): %s; node is the removed entry: %s' % (args_ok, node_ok))
        pl = lb['pop_lru']
        pv = flow.Origin(pl, stop_at_vars=True)
        rc = pl.calls_to('LruIndex::remove')
        ky = pl.var_local('key')
        kyo = flow.render(flow.Origin(pl).of_local(ky[0])) if len(ky) == 1 else ''
        some_ret = [i_ for i_, blk in enumerate(pl.blocks) for st in blk['s'] if st.get('rv', {}).get('k') == 'agg' and st['rv'].get('variant') == 'Some' and st['pl']['l'] == 0]
        ctx.inst('C20.R5', pl.short, 'pops the head through remove(head)', len(rc) == 1 and flow.render(pv.of_operand(rc[0].args[1], 0, frozenset({-1}))) == 'var:key' and
                 bool(re.search(r'LruIndex\.head.*@Continue→Continue\.0$', kyo)) and bool(some_ret) and all(pl.dominates(rc[0].bb, x) for x in some_ret) and
                 not [c for c in pl.calls if c.callee and flow.short(c.callee).startswith('HashMap::') and not c.exp],
                 'key = %s; remove calls %d; direct map access: %s' % (kyo[-50:], len(rc), [flow.short(c.callee) for c in pl.calls if c.callee and flow.short(c.callee).startswith('HashMap::') and not c.exp]))
        dtc = lb['detach']
        dv = flow.Origin(dtc, stop_at_vars=True)
        df = flow.Origin(dtc)
        preds = [(i_, tg, p) for i_, blk in enumerate(dtc.blocks) if blk['t']['k'] == 'switch' and i_ in dtc.live_blocks() for tg, p in flow.switch_edge_predicates(dtc, i_, dv)]
        E = lambda rx: [(i_, tg) for i_, tg, p in preds if re.match(rx, p)]
        prev_none, prev_some = E(r'^variant\(arg:prev\) ∉ \{Some\}$|^variant\(arg:prev\) = None$'), E(r'^variant\(arg:prev\) = Some$')
        next_none, next_some = E(r'^variant\(arg:next\) ∉ \{Some\}$|^variant\(arg:next\) = None$'), E(r'^variant\(arg:next\) = Some$')
        was_head, was_tail = E(r'^eq\[arg:self→LruIndex\.head, option::Option::Some\{arg:key\}\]$'), E(r'^eq\[arg:self→LruIndex\.tail, option::Option::Some\{arg:key\}\]$')
        asg = []
        for i_, blk in enumerate(dtc.blocks):
            for st in blk['s']:
                if 'rv' in st and st['pl'].get('p'):
                    fs = [x for x in st['pl']['p'] if isinstance(x, str) and x != '*']
                    if fs and re.search(r'Lru(Index|Node)\.(head|tail|prev|next)$', fs[-1]):
                        asg.append((i_, fs[-1].split('.')[-1], flow.render(df.of_place(st['pl'])), flow.render(dv.of_rvalue(st['rv'], 0, frozenset({-1})))))

        def only_behind(blocks, edge_sets):
            edges = [e for es in edge_sets for e in es]
            r0 = dtc.reach([0], avoid_edges=edges)
            return bool(edges) and all(x not in r0 for x in blocks)

        def must_after(edges, blocks, avoid_edges=()):
            return bool(edges) and bool(blocks) and all(not any(x in (dtc.reach([tg], avoid_blocks=blocks, avoid_edges=avoid_edges) | ({tg} - set(blocks))) for x in dtc.return_blocks()) for _, tg in edges)
        gm_none = [(i_, tg) for i_, tg, p in preds if re.match(r'^variant\(HashMap::get_mut\(.*\)\) ∉ \{Some\}$', p)]
        hd = [a for a in asg if a[1] == 'head']
        tl = [a for a in asg if a[1] == 'tail']
        nx = [a for a in asg if a[1] == 'next']
        pv_ = [a for a in asg if a[1] == 'prev']
        ctx.inst('C20.R5', dtc.short, 'head := next exactly when the node had no predecessor (or was the head)',
                 bool(hd) and all(a[3] == 'arg:next' for a in hd) and only_behind([a[0] for a in hd], [prev_none, was_head]) and must_after(prev_none, [a[0] for a in hd]),
                 'head assignments: %s' % [(a[0], a[3]) for a in hd])
        ctx.inst('C20.R5', dtc.short, 'tail := prev exactly when the node had no successor (or was the tail)',
                 bool(tl) and all(a[3] == 'arg:prev' for a in tl) and only_behind([a[0] for a in tl], [next_none, was_tail]) and must_after(next_none, [a[0] for a in tl]),
                 'tail assignments: %s' % [(a[0], a[3]) for a in tl])
        ctx.inst('C20.R5', dtc.short, 'predecessor.next := next',
                 len(nx) == 1 and nx[0][3] == 'arg:next' and 'HashMap::get_mut(arg:self→LruIndex.nodes, arg:prev@Some→Some.0)' in nx[0][2] and must_after(prev_some, [nx[0][0]], avoid_edges=gm_none),
                 '%s' % [(a[2][:70], a[3]) for a in nx])
        ctx.inst('C20.R5', dtc.short, 'successor.prev := prev',
                 len(pv_) == 1 and pv_[0][3] == 'arg:prev' and 'HashMap::get_mut(arg:self→LruIndex.nodes, arg:next@Some→Some.0)' in pv_[0][2] and must_after(next_some, [pv_[0][0]], avoid_edges=gm_none),
                 '%s' % [(a[2][:70], a[3]) for a in pv_])
        inn = lb['insert_new']
        iv = flow.Origin(inn, stop_at_vars=True)
        iff = flow.Origin(inn)
        ipreds = [(i_, tg, p) for i_, blk in enumerate(inn.blocks) if blk['t']['k'] == 'switch' and i_ in inn.live_blocks() for tg, p in flow.switch_edge_predicates(inn, i_, iv)]
        ins_c = [c for c in inn.calls if c.callee and flow.short(c.callee) == 'HashMap::insert']
        ot = inn.var_local('old_tail')
        oto = flow.render(iff.of_local(ot[0])) if len(ot) == 1 else ''
        node_arg = flow.render(iv.of_operand(ins_c[0].args[2], 0, frozenset({-1}))) if ins_c else ''
        t_asg = [i_ for i_ in util.assign_blocks(inn, r'LruIndex\.tail$')]
        h_asg = [i_ for i_ in util.assign_blocks(inn, r'LruIndex\.head$')]
        empty_e = [(i_, tg) for i_, tg, p in ipreds if re.match(r'^variant\(var:old_tail\) ∉ \{Some\}$|^variant\(var:old_tail\) = None$', p)]
        rets = inn.return_blocks()
        after_ins = inn.reach([ins_c[0].to], avoid_blocks=t_asg) if ins_c and ins_c[0].to is not None else set(rets)
        ok = bool(ins_c) and oto == 'arg:self→LruIndex.tail' and node_arg.startswith('lru_index::LruNode::LruNode{var:old_tail, option::Option::None') and bool(t_asg) and \
            not any(x in after_ins for x in rets) and bool(h_asg) and bool(empty_e) and all(x not in inn.reach([0], avoid_edges=empty_e) for x in h_asg) and \
            all(not any(x in (inn.reach([tg], avoid_blocks=h_asg) | ({tg} - set(h_asg))) for x in rets) for _, tg in empty_e)
        ctx.inst('C20.R5', inn.short, 'new key linked behind the old tail, becomes tail, and head when the list was empty', ok,
                 'node = %s; old_tail = %s; tail assignment on every path after the insert: %s; head only/always on the empty edge' % (node_arg[:60], oto, not any(x in after_ins for x in rets)))
    configured_bounds(ctx, prog)
    ctx.stat('functions_analysed', len(set(i['key'].split(' | ')[1] for i in ctx.instances)))


# owner type, field that holds the bound (or the configuration struct that holds it), fields that must never be assigned once the owner exists
BOUND_HOLDERS = [
    ('vector_cache::VectorCache', 'capacity', ['VectorCache.capacity']),
    ('query_hash_cache::QueryHashCache', 'capacity', ['QueryHashCache.capacity']),
    ('tiered_engine::TieredEngine', 'config', ['TieredEngine.config', 'TieredEngineConfig.hot_tier_hard_limit']),
    ('semantic_adapter::SemanticAdapter', 'config', ['SemanticAdapter.config', 'SemanticConfig.max_cached_embeddings']),
]


def _as_given(e):
    """the origin is a parameter of the function, possibly with OTHER fields of it filled in afterwards (`set` alternatives) — returns the parameter or None"""
    alts = [a for a in flow.top_alternatives(e) if a[0] != 'set']
    while len(alts) == 1 and alts[0][0] == 'cast':
        alts = [alts[0][1]]
    return alts[0] if len(alts) == 1 and alts[0][0] == 'arg' else None


def configured_bounds(ctx, prog):
    rid = 'C20.R6'
    ctx.rule(rid, 'the bound the guard compares with is the configured one. R2 decides `len − bound ≥ 0 ⇒ evict / drain` against a FIELD (VectorCache.capacity, '
                  'QueryHashCache.capacity, TieredEngine.config.hot_tier_hard_limit, SemanticAdapter.config.max_cached_embeddings); that field is the number the caller '
                  'configured only if every constructor of the owner stores its own parameter there unchanged, the engine\'s cache strategies hand their capacity '
                  'parameter to VectorCache::new unchanged, and nothing assigns the field afterwards. A constructor that rounds, scales or "normalises" the value '
                  '(next_power_of_two, max(hard, 2·soft)) lets the container hold more than was configured although every guard is intact')
    for owner, fld, frozen in BOUND_HOLDERS:
        n = 0
        for b in sorted(prog.bodies.values(), key=lambda x: x.id):
            if b.kind == 'Promoted' or ' as core::clone::Clone>::clone' in b.id:
                continue
            for i, blk in enumerate(b.blocks):
                for st in blk['s']:
                    rv = st.get('rv')
                    if not (rv and rv['k'] == 'agg' and rv.get('ak') == 'adt' and rv.get('adt', '').endswith(owner) and fld in (rv.get('fields') or [])):
                        continue
                    n += 1
                    e = flow.Origin(b).of_operand(rv['ops'][rv['fields'].index(fld)])
                    a = _as_given(e)
                    who = b.short.split('::{')[0]
                    k = sum(1 for x in ctx.instances if x.get('config') == ctx.config and x['rule'] == rid and x['key'].startswith('%s | %s | %s.%s #' % (rid, who, owner.split('::')[-1], fld)))
                    ctx.inst(rid, who, '%s.%s #%d is the constructor\'s parameter, unchanged' % (owner.split('::')[-1], fld, k), a is not None,
                             '%s = %s%s' % (fld, flow.render(e)[:160], '' if a is not None else ' — the stored bound is computed from the configured value, not the value itself: the guards of R2 '
                                                                                             'keep the container within a bound nobody configured'))
        ctx.floor(rid, 'constructions of %s' % owner.split('::')[-1], n, 1, '')
        for fz in frozen:
            ws = sorted(set(b.short.split('::{')[0] for b in prog.bodies.values() if b.kind != 'Promoted' and util.assign_blocks(b, re.escape(fz) + '$')))
            ctx.inst(rid, fz, 'never assigned after construction', not ws, 'assignments in: %s%s' % (ws, '' if not ws else
                     ' — the value the guard of R2 reads is rewritten after the caller configured it (directly or through a helper inlined there), so the container is '
                     'held to a bound nobody configured'))
    n_c = 0
    for c in sorted(prog.callers_of('VectorCache::new'), key=lambda c: (c.body.id, c.bb)):
        if c.body.crate != 'kyrodb_engine' or not c.args:
            continue
        n_c += 1
        e = flow.Origin(c.body).of_operand(c.args[0])
        a = _as_given(e)
        ctx.inst(rid, c.body.short.split('::{')[0], 'hands its own capacity parameter to VectorCache::new', a is not None, 'VectorCache::new(%s)' % flow.render(e)[:120])
    ctx.floor(rid, 'VectorCache::new call sites in the engine', n_c, 3, 'LruCacheStrategy::new, LearnedCacheStrategy::new, ::new_with_semantic')


def _explore_vars(body, atoms, mark_edges, stop):
    """pathsens.explore with variable-level predicates."""
    import kvstatic.pathsens as ps
    orig = ps.Origin
    try:
        ps.Origin = lambda b: flow.Origin(b, stop_at_vars=True)
        return ps.explore(body, atoms, mark_edges=mark_edges, stop_blocks=stop)
    finally:
        ps.Origin = orig
